/- Line-protocol driver for the HTTP model (stream `http`, properties C13 and C20).

Configuration lines build the model's `Config`; each `req` line is one HTTP exchange of the harness
with the real daemon.  The driver authenticates the request with the model's provider chain,
evaluates the row of the generated route table the request was built from, compares the predicted
status class (and login result, listing, actor) with the observed one (`FAIL model`), and evaluates
the executable forms of the property predicates on the *observed* answer (`FAIL oracle`).

  cfg auth=configfile|admintoken admin=<hex> testbed=0|1 key=<n> [roles=builtin] [unix=default] [users=none] [load=toml]
      the configuration FILE (`KM.Http.ConfigFile`): `roles=builtin` = no `[auth_roles]` section (no `role`
      lines follow), `unix=default` = no `[unix_users]` section (no `unix` lines), `users=none` = no
      `[auth_users]`; the providers see `ConfigFile.effective`
  start => start=ok|refused
      the daemon is started from that configuration; the model's answer is `startOk`; after `refused`
      nothing follows in the case
  role <name> none=<P,P|-> any=<P,P|-> res=<handle>:<P+P|->;…|-
  user <hexname> role=<name> hpw=<hex> hname=<hex> salt=<n> [hsalt=<n>] [stored=<form>]
      the stored `password_hash` is the hash term (hpw, hname, hsalt or else salt) – or, with `stored=<form>`
      (bang, empty, trunc, plus1, upper, nonhex64: that hash mangled), a `junk` string
  unix <sysuser> <role>
  norm <hexraw> <hexnorm>
  foreign F<n> key=<k> user=<hex> role=<name>
  req <idx> <METHOD> segs=<s/s/…|-> tr=tcp|unix:<peer> auth=<a> [all=<h,h|->] => status=<n> [token=T<k> id=<hex> role=<r>] [list=<h,h|->] [actor=<s>] [effect=none|changed]

`auth=near:<base>:<variant>` is a member of the neighbourhood (`KM.Http.NearMiss`) of a genuine
credential: `base` = `adm` (the admin token: the model builds the header text and parses it with
`getBearerToken`) or a token name (`T1`: the text is random, the model uses `NearMiss.same`, which is
`getBearerToken` on every text by `KM.Props.C20.near_miss_same_iff`); `variant` = `pre:<k|h|m1|m2>`,
`ext:c|sp|ws`, `chg:0|mid|last`, `case`, `ws:lead|trail|both|tab`, `empty`.
-/
import KrillModel.Http.Serve
import KrillModel.Http.Spec
import KrillModel.Http.Bearer
import KrillModel.Http.ConfigModel
import KrillModel.Drivers.Util
namespace KM.Drv.Http
open KM.Generated KM.Http KM.Drv

def hexVal (c : Char) : Option Nat :=
  if '0' ≤ c && c ≤ '9' then some (c.toNat - '0'.toNat)
  else if 'a' ≤ c && c ≤ 'f' then some (c.toNat - 'a'.toNat + 10)
  else if 'A' ≤ c && c ≤ 'F' then some (c.toNat - 'A'.toNat + 10)
  else none

partial def hexBytes : List Char → Option (List UInt8)
  | [] => some []
  | a :: b :: rest => do
    let x ← hexVal a
    let y ← hexVal b
    let r ← hexBytes rest
    pure (UInt8.ofNat (x * 16 + y) :: r)
  | _ => none

/-- hex of UTF-8 → string (`-` = empty). -/
def unhex (s : String) : Option String :=
  if s == "-" then some "" else do
    let bs ← hexBytes s.toList
    String.fromUTF8? (ByteArray.mk bs.toArray)

def parsePerm (s : String) : Option Permission :=
  Permission.all.find? fun p => toString (repr p) == "KM.Generated.Permission." ++ s

def parsePerms (s : String) (sep : String) : Option (List Permission) :=
  if s == "-" || s == "" then some [] else (s.splitOn sep).mapM parsePerm

def parseRes (s : String) : Option (List (Handle × PermSet)) :=
  if s == "-" || s == "" then some [] else
    (s.splitOn ";").mapM fun e =>
      match e.splitOn ":" with
      | [h, ps] => (parsePerms ps "+").map fun l => (h, l)
      | _ => none

def parseMethod : String → Option Method
  | "GET" => some .GET
  | "POST" => some .POST
  | "DELETE" => some .DELETE
  | "OTHER" => some .OTHER
  | _ => none

structure St where
  /-- the configuration file of the case -/
  cf : ConfigFile := ⟨.configFile, "", some [], some [], some [], 0, false⟩
  norm : List (String × String) := []
  sess : SessState := {}
  /-- tokens by their trace name (`T1`, `F1`) -/
  tokens : List (String × Wire) := []

/-- What the providers see. -/
def St.cfg (st : St) : Config := st.cf.effective

def St.normF (st : St) (s : String) : String := (st.norm.lookup s).getD s

/-- Parse a wire description. -/
def parseWire (st : St) (s : String) : Option Wire :=
  if s.startsWith "txt:" then (unhex (s.drop 4).toString).map Wire.text
  else if s.startsWith "dmg:" then some (.text s)
  else if s.startsWith "nc:" then
    match st.tokens.lookup (s.drop 3).toString with
    | some (.sealed _ k n pt) => some (.sealed false k n pt)
    | _ => none
  else st.tokens.lookup s

/-- The near miss a variant word stands for; `t` is the text of the credential if the model knows it
(the harness uses the same rules on the real text). -/
def parseNear (t : Option (List Char)) (s : String) : Option NearMiss :=
  let len := (t.map List.length).getD 4
  let other (i : Nat) : Char :=
    match t.bind (·[i]?) with
    | some c => if c == 'x' then 'y' else 'x'
    | Option.none => 'x'
  match s.splitOn ":" with
  | ["pre", k] =>
    match k with
    | "h" => some (.pre (len / 2))
    | "m1" => some (.pre (len - 1))
    | "m2" => some (.pre (len - 2))
    | _ => k.toNat?.map .pre
  | ["ext", "c"] => some (.ext ['x'])
  | ["ext", "sp"] => some (.ext " and then some".toList)
  | ["ext", "ws"] => some (.ext [' ', ' '])
  | ["ext", "x256"] => some (.ext (List.replicate 256 'x'))
  | ["chg", "0"] => some (.chg 0 (other 0))
  | ["chg", "mid"] => some (.chg (len / 2) (other (len / 2)))
  | ["chg", "last"] => some (.chg (len - 1) (other (len - 1)))
  | ["case"] => some .swapCase
  | ["ws", "lead"] => some (.pad [' ', ' '] [])
  | ["ws", "trail"] => some (.pad [] [' ', ' '])
  | ["ws", "both"] => some (.pad [' '] [' '])
  | ["ws", "tab"] => some (.pad ['\t'] ['\t'])
  | ["empty"] => some .empty
  | _ => Option.none

def nearClass : NearMiss → String
  | .pre _ => "prefix" | .ext _ => "extension" | .chg _ _ => "changed" | .swapCase => "case"
  | .pad _ _ => "padded" | .empty => "empty"

inductive AuthDesc where
  | none
  | bearer (w : Wire)
  /-- an `Authorization` header `get_bearer_token` does not read as a bearer token -/
  | unread
  | basic (name pw : String)

/-- `near:<base>:<variant>` → the near miss, and the header the request carries. -/
def parseNearAuth (st : St) (s : String) : Option (NearMiss × Header) :=
  match s.splitOn ":" with
  | "near" :: base :: rest =>
    let vw := ":".intercalate rest
    if base == "adm" then
      let t := st.cfg.adminToken.toList
      match parseNear (some t) vw with
      | some v => if v.applies t then some (v, v.header t) else Option.none
      | Option.none => Option.none
    else
      match st.tokens.lookup base, parseNear Option.none vw with
      | some w, some v =>
        some (v, if v == .empty then .absent else if v.same then .bearer w else .bearer (.text s))
      | _, _ => Option.none
  | _ => Option.none

def parseAuth (st : St) (s : String) : Option AuthDesc :=
  if s == "none" then some .none
  else if s.startsWith "near:" then
    (parseNearAuth st s).map fun (_, h) =>
      match h with
      | .bearer w => .bearer w
      | .absent => .unread
  else if s.startsWith "bearer:" then (parseWire st (s.drop 7).toString).map .bearer
  else if s.startsWith "bearerpad:" then (parseWire st (s.drop 10).toString).map .bearer
  else if s.startsWith "unread:" then some .unread
  else if s.startsWith "basic:" then
    match (s.drop 6).toString.splitOn ":" with
    | [n, p] => do
      let n ← unhex n
      let p ← unhex p
      pure (.basic n p)
    | _ => Option.none
  else Option.none

def AuthDesc.header : AuthDesc → Header
  | .bearer w => .bearer w
  | _ => .absent

def parseTransport (s : String) : Option Transport :=
  if s == "tcp" then some .tcp
  else if s.startsWith "unix:" then some (.unix (s.drop 5).toString)
  else none

/-- Do concrete segments fit a path pattern? -/
def fits : List Seg → List String → Bool
  | [], [] => true
  | [], _ => false
  | .rest :: _, _ => true
  | .opt :: ps, ss => ss.length ≤ (.opt :: ps).length
  | .lit l :: ps, s :: ss => l.text == s && fits ps ss
  | .param :: ps, s :: ss => fits ps ss && s != ""
  | .bogus :: ps, _ :: ss => fits ps ss
  | _, [] => false

def statusClass (o : Outcome) (status : Nat) : Bool :=
  match o with
  | .unauthorized => status == 401
  | .forbidden => status == 403
  | .methodNotAllowed => status == 405
  | .notFound => status == 404
  | .served => status != 401 && status != 403 && status != 405 && status != 0

def showOutcome : Outcome → String
  | .unauthorized => "401"
  | .forbidden => "403"
  | .methodNotAllowed => "405"
  | .notFound => "404"
  | .served => "served"

def showArea : Spec.Area → String
  | .api => "api" | .protocol => "protocol" | .repository => "repository" | .taDownload => "ta"
  | .health => "health" | .metrics => "metrics" | .stats => "stats" | .login => "login" | .ui => "ui"
  | .testbed => "testbed" | .nowhere => "nowhere"

def isLoginRow (rt : Route) : Bool :=
  rt.path == [.lit .l_auth, .lit .l_login] && rt.method == .POST
def isLogoutRow (rt : Route) : Bool :=
  rt.path == [.lit .l_auth, .lit .l_logout] && rt.method == .POST

def sortStr (l : List String) : List String := sortBy (fun a b => a < b) l

def parseList (s : String) : List String :=
  if s == "-" || s == "" then [] else s.splitOn ","

/-- The observed answer shows that the handler body ran. -/
def handlerRan (rt : Route) (status : Nat) : Bool :=
  (200 ≤ status && status < 300) ||
  (rt.fin.runs && (status == 400 || status == 409 || status == 500 || status == 501))

/-- Executable property predicates on the observed answer; returns the names of failed ones.
They use the specification (`Spec`), the configured roles and the authentication result – not the
gates of the generated table. -/
def oracle (st : St) (a : AuthRes) (ad : AuthDesc) (rt : Route) (segs : List String)
    (status : Nat) (ows : List String) : List String :=
  let area := Spec.areaOf rt.path
  let ran := handlerRan rt status && !isLoginRow rt && !isLogoutRow rt
  let allowed (p : Permission) (res : Option Handle) : Bool := (checkPerm a p res).isNone
  -- C13 every_op_gated / api_v1_needs_login on what was actually served
  let gated :=
    if ran && area == .api then
      (if allowed .Login Option.none then [] else ["api_v1_needs_login"]) ++
      (if rt.ops.all (fun c =>
          match Spec.required c.op with
          | .onCa alts =>
            match c.target with
            | .seg i => match segs[i]? with
              | some h => alts.any fun p => allowed p (some h)
              | Option.none => false
            | .taHandle => allowed Spec.taPermission Option.none
            | _ => true
          | .general alts => alts.any fun p => allowed p Option.none
          | _ => true) then [] else ["every_op_gated"]) ++
      (if rt.ops.all (fun c => (Spec.alsoRequired c.op).all fun p => allowed p Option.none) then []
       else ["pubd_ops_need_pub_admin"])
    else []
  -- C13 unchecked_only_public / C20 refused_everywhere
  let publicOnly :=
    if ran && !a.isOk && !(Spec.mayBePublic area (area == .testbed && st.cfg.testbed)) then
      [match ad with
       | .bearer _ => "refused_everywhere"
       | _ => "unchecked_only_public"]
    else []
  -- C13 refused requests cause no effect
  let effect :=
    if (status == 401 || status == 403) && kv? ows "effect" == some "changed" then ["refused_no_effect"]
    else []
  -- C13 listing_filtered
  let listing :=
    match kv? ows "list", kv? ows "all" with
    | some l, some all =>
      let shown := parseList l
      let allL := parseList all
      if shown.all (fun h => allL.contains h && allowed .CaRead (some h)) &&
         allL.all (fun h => !allowed .CaRead (some h) || shown.contains h)
      then [] else ["listing_filtered"]
    | _, _ => []
  -- C20 identity_role_is_configured: a served request that carries a session token (or comes from a
  -- mapped peer) acted within the permissions of the role the CONFIGURED role map has under the
  -- session's (the mapping's) role name – judged with the role map of the file, not with `a`
  let roleName : Option String :=
    match ad with
    | .bearer (.sealed _ _ _ (.session _ r)) => some r
    | _ => Option.none
  let configured :=
    if ran && area == .api then
      match roleName with
      | some r =>
        match st.cf.roleMap.lookup r with
        | some role => if (runGates (.ok "?" role) segs rt.gates).isNone then [] else ["identity_role_is_configured"]
        | Option.none => ["identity_role_is_configured"]
      | Option.none => []
    else []
  gated ++ publicOnly ++ effect ++ listing ++ configured

/-- The full-strength login predicate on an observed successful login: the identity logged in is a
configured user whose own stored hash matches the password sent. -/
def loginOracle (st : St) (pw : String) (status : Nat) (ows : List String) : List String :=
  if status != 200 then [] else
  match (kv? ows "id").bind unhex with
  | some id =>
    match st.cfg.users.lookup id with
    | some e =>
      (if e.hash == .term ⟨st.normF pw, id, e.salt⟩ then [] else ["login_identity"]) ++
      (if kv? ows "role" == some e.role then [] else ["login_role"]) ++
      (match st.cfg.roles.lookup e.role with
       | some r => if r.isAllowed .Login Option.none then [] else ["login_needs_permission"]
       -- the role name of the entry is not a role of the configuration
       | Option.none => ["login_role", "identity_role_is_configured"])
    | Option.none => ["login_identity"]
  | Option.none => ["login_identity"]

def authKind (a : AuthRes) (ad : AuthDesc) (cfg : Config) : String :=
  match a, ad with
  | .ok _ _, .bearer w => if w == .text cfg.adminToken then "admin" else
      (match w with
       | .sealed .. => "session"
       | _ => "peer-after-failed-bearer")
  | .ok _ _, _ => "peer"
  | .none, .bearer _ => "anon-after-failed-bearer"
  | .none, _ => "anon"
  | .err, .bearer _ => "err-after-failed-bearer"
  | .err, _ => "err"

def fail (kind msg : String) : String := s!"FAIL {kind} {msg}"

/-- The implementation handed out a token for a login the model refuses (reported on the login
line): the token is what it says it is – a session of this instance for the observed id and role –
so that the uses of the token that follow in the trace can be judged as what they are. -/
def unexpectedToken (st : St) (ows : List String) : St :=
  match kv? ows "token", (kv? ows "id").bind unhex, kv? ows "role" with
  | some t, some id, some role =>
    { st with tokens := (t, .sealed true st.cfg.key 1000000 (.session id role)) :: st.tokens }
  | _, _, _ => st

def stepReq (st : St) (ws ows : List String) : St × String :=
  match ws with
  | _ :: idx :: meth :: rest =>
    -- `cred=<euid>:<egid>`: the peer's effective gid is an input of the step; `tr=unix:<name>` names the
    -- user of the effective uid
    let trOf : Option Transport := (kv? rest "tr").bind fun s =>
      match parseTransport s, (kv? rest "cred").map (·.splitOn ":") with
      | some (.unix u), some [_, g] => some (transportOf ⟨u, g.toNat?.getD 0⟩)
      | t, _ => t
    match idx.toNat?, parseMethod meth, trOf,
          (kv? rest "auth").bind (parseAuth st) with
    | some i, some m, some tr, some ad =>
      match routes[i]? with
      | Option.none => (st, "bad-op no-such-row")
      | some rt =>
        let segs := match kv? rest "segs" with
          | some "-" => []
          | some s => s.splitOn "/"
          | Option.none => []
        if rt.method != m || !fits rt.path segs then (st, "bad-op row-does-not-fit-request") else
        let status := ((kv? ows "status").bind String.toNat?).getD 0
        -- `all=` (the admin's view, taken just before the request) is written in front of `=>`
        let ows := match kv? rest "all" with
          | some a => ows ++ ["all=" ++ a]
          | Option.none => ows
        -- every request is authenticated first
        let (a, sess1) := authenticate st.cfg st.sess ad.header tr
        let st1 := { st with sess := sess1 }
        let area := showArea (Spec.areaOf rt.path)
        if isLoginRow rt && st.cfg.authType == .configFile then
          let basic := match ad with
            | .basic n p => some (n, p)
            | _ => Option.none
          let (lr, sess2) := loginConfigFile st.normF st.cfg sess1 basic
          let orc := match ad with
            | .basic _ p => loginOracle st p status ows
            | _ => if status == 200 then ["login_identity"] else []
          let o := if orc.isEmpty then "" else " ORACLE " ++ " ".intercalate orc
          match lr with
          | .ok id role w =>
            let okObs := status == 200 && (kv? ows "id").bind unhex == some id &&
              kv? ows "role" == some role
            match kv? ows "token" with
            | some t =>
              if !okObs then
                ({ st1 with sess := sess2 }, fail "model" s!"login expected 200 id={id} role={role} observed status={status}{o}")
              else if !orc.isEmpty then
                ({ st1 with sess := sess2, tokens := (t, w) :: st.tokens }, fail "oracle" (" ".intercalate orc))
              else
                ({ st1 with sess := sess2, tokens := (t, w) :: st.tokens },
                  s!"ok login:ok/{if basic.map (·.1) == some id then "plain" else "normalised"}")
            | Option.none =>
              ({ st1 with sess := sess2 }, fail "model" s!"login expected 200 id={id} role={role} observed status={status}{o}")
          | .invalid =>
            if status == 401 then (st1, s!"ok login:invalid/{match basic with
              | Option.none => "no-credentials"
              | some (n, p) =>
                match st.cfg.users.lookup (st.normF n) with
                | Option.none =>
                  (if (st.cfg.users.lookup n).isSome then "unknown-normalised-name" else "unknown-name")
                | some e =>
                  match e.hash with
                  | .junk _ => "junk-hash"
                  | .term h =>
                    if h == (⟨st.normF p, st.normF n, e.salt⟩ : HashTerm) then "undefined-role"
                    else if h.saltName != st.normF n || h.salt != e.salt then "foreign-hash" else "wrong-password"}")
            else if !orc.isEmpty then (unexpectedToken st1 ows, fail "oracle" (" ".intercalate orc))
            else (st1, fail "model" s!"login expected 401 observed status={status}")
          | .denied =>
            if status == 403 then (st1, "ok login:denied")
            else if !orc.isEmpty then (unexpectedToken st1 ows, fail "oracle" (" ".intercalate orc))
            else (st1, fail "model" s!"login expected 403 observed status={status}")
        else if isLoginRow rt then
          -- admin-token provider as primary: the bearer token must be the admin token
          match loginAdmin st.cfg ad.header with
          | .ok _ _ _ =>
            if status == 200 then (st1, "ok login:admin-token") else
              (st1, fail "model" s!"login expected 200 observed status={status}")
          | _ =>
            if status == 401 then (st1, "ok login:admin-token-invalid")
            else if status == 200 then (st1, fail "oracle" "login_identity")
            else (st1, fail "model" s!"login expected 401 observed status={status}")
        else
        let st2 := if isLogoutRow rt && st.cfg.authType == .configFile
          then { st1 with sess := logoutConfigFile st.cfg sess1 ad.header } else st1
        let out := respond st.cfg.testbed a rt segs
        let orc := oracle st a ad rt segs status ows
        let kind := authKind a ad st.cfg ++
          (match (kv? rest "auth").bind (parseNearAuth st) with
           | some (v, _) => s!"/near-{nearClass v}{if v.same then "=same" else ""}"
           | Option.none => "")
        -- listing and actor as predicted by the model
        let listOk := match kv? ows "list", kv? ows "all" with
          | some l, some all =>
            out != .served || sortStr (parseList l) == sortStr (listingShown a rt (parseList all))
          | _, _ => true
        let actorOk := match kv? ows "actor" with
          | some act => out != .served || act == a.auditName
          | Option.none => true
        if !orc.isEmpty then
          (st2, fail "oracle" (" ".intercalate orc ++ s!" (status={status} model={showOutcome out} auth={kind})"))
        else if !statusClass out status then
          (st2, fail "model" s!"expected {showOutcome out} observed status={status} auth={kind} row={rt.idx}")
        else if !listOk then
          (st2, fail "model" s!"listing differs: expected {listingShown a rt (parseList ((kv? ows "all").getD "-"))}")
        else if !actorOk then
          (st2, fail "model" s!"actor differs: expected {a.auditName}")
        else
          (st2, s!"ok req:{area}/{showOutcome out}/{kind}")
    | _, _, _, _ => (st, "bad-op unparsable-req")
  | _ => (st, "bad-op unparsable-req")

def step (st : St) (line : String) : St × String :=
  let (opS, obsS) := splitObs line
  let ws := words opS
  let ows := words obsS
  match ws with
  | "cfg" :: rest =>
    let aty := if kv? rest "auth" == some "admintoken" then AuthType.adminToken else .configFile
    match (kv? rest "admin").bind unhex with
    | some adm =>
      let tb := kv? rest "testbed" == some "1"
      let key := natOr ((kv? rest "key").getD "0") 0
      let cf := { st.cf with authType := aty, adminToken := adm, testbed := tb, key := key }
      let cf := if kv? rest "roles" == some "builtin" then { cf with authRoles := Option.none } else cf
      let cf := if kv? rest "unix" == some "default" then { cf with unixUsers := Option.none } else cf
      let cf := if kv? rest "users" == some "none" then { cf with authUsers := Option.none } else cf
      ({ st with cf := cf },
        s!"ok cfg:{if cf.authRoles.isNone then "builtin-roles" else "own-roles"}/{if cf.unixUsers.isNone then "default-unix-users" else "own-unix-users"}")
    | Option.none => (st, "bad-op cfg")
  | "role" :: name :: rest =>
    match parsePerms ((kv? rest "none").getD "-") ",", parsePerms ((kv? rest "any").getD "-") ",",
          parseRes ((kv? rest "res").getD "-") with
    | some n, some a, some r =>
      ({ st with cf := { st.cf with authRoles := some (st.cf.authRoles.getD [] ++ [(name, ⟨n, a, r⟩)]) } },
        if (builtinRoleMap.lookup name).isSome then "ok role:shadows-builtin" else "ok role:trivial")
    | _, _, _ => (st, "bad-op role")
  | "user" :: hname :: rest =>
    match unhex hname, (kv? rest "hpw").bind unhex, (kv? rest "hname").bind unhex,
          (kv? rest "salt").bind String.toNat?, kv? rest "role" with
    | some n, some pw, some sn, some salt, some role =>
      -- what the configuration file holds as `password_hash`: the text of the hash of (hpw, hname,
      -- hsalt) – or that text mangled into something that is not the text of any hash
      let hsalt := ((kv? rest "hsalt").bind String.toNat?).getD salt
      let stored : StoredHash := match kv? rest "stored" with
        | some form => if form == "wf" then .term ⟨pw, sn, hsalt⟩ else .junk form
        | Option.none => .term ⟨pw, sn, hsalt⟩
      ({ st with cf := { st.cf with authUsers := some (st.cf.authUsers.getD [] ++ [(n, ⟨stored, salt, role⟩)]) } },
        match stored with
        | .junk _ => "ok user:junk-hash"
        | .term h => if h == ⟨pw, n, salt⟩ then "ok user:trivial" else "ok user:foreign-hash")
    | _, _, _, _, _ => (st, "bad-op user")
  | ["unix", u, r] =>
    ({ st with cf := { st.cf with unixUsers := some (st.cf.unixUsers.getD [] ++ [(u, r)]) } }, "ok unix:trivial")
  | ["start"] =>
    let obs := kv? ows "start"
    let why :=
      if !configFileProviderStarts st.cf then "no-auth-users"
      else if !unixProviderStarts st.cf then
        (if st.cf.unixUsers.isNone then "default-unix-user-role-undefined" else "unix-user-role-undefined")
      else "ok"
    if startOk st.cf then
      (if obs == some "ok" then (st, "ok start:ok")
       else (st, fail "model" s!"start expected=ok observed={obs.getD "?"}"))
    else
      (if obs == some "refused" then (st, s!"ok start:refused/{why}")
       else (st, fail "model" s!"start expected=refused({why}) observed={obs.getD "?"}"))
  | ["norm", a, b] =>
    match unhex a, unhex b with
    | some a, some b => ({ st with norm := (a, b) :: st.norm }, "ok norm:trivial")
    | _, _ => (st, "bad-op norm")
  | "foreign" :: name :: rest =>
    match (kv? rest "key").bind String.toNat?, (kv? rest "user").bind unhex, kv? rest "role" with
    | some k, some u, some r =>
      ({ st with tokens := (name, .sealed true k 0 (.session u r)) :: st.tokens }, "ok foreign:trivial")
    | _, _, _ => (st, "bad-op foreign")
  | "req" :: _ => stepReq st ws ows
  -- C16, profile `pathfuzz`: boundary values in path segments and mutated bodies, sent as the admin.
  -- The model's statement is the one of C16: every request is answered (any status) and processing
  -- neither panics nor takes the daemon down.
  | "fuzz" :: _ :: _ :: rest =>
    let status := ((kv? ows "status").bind String.toNat?).getD 0
    let alive := kv? ows "alive" == some "1"
    let what := (kv? rest "what").getD "?"
    let kind := if what.startsWith "body:" then "body" else if what.startsWith "hdr:" then "header" else "segment"
    match kv? ows "panic" with
    | some p => (st, fail "oracle" s!"no_panic panic={p} status={status}")
    | Option.none =>
      -- a request with a hostile header may be dropped by the HTTP layer without an answer
      if status == 0 && kind == "header" then
        (if alive then (st, "ok fuzz:header/closed") else (st, fail "oracle" "no_panic daemon-down"))
      else if status == 0 then (st, fail "oracle" "no_panic no-response")
      else if !alive then (st, fail "oracle" "no_panic daemon-down")
      else (st, s!"ok fuzz:{kind}/{if status < 300 then "2xx" else if status < 400 then "3xx" else if status == 400 then "400" else if status == 404 then "404" else if status == 405 then "405" else if status < 500 then "4xx" else "5xx"}")
  | _ => (st, "bad-op " ++ opS)

def main : IO Unit := do
  let stdin ← IO.getStdin
  loop stdin ({} : St) step {}

end KM.Drv.Http
