/-
Driver for stream `sysobjects`: judges traces of the `system` harness (SYSTEM_STREAM.md) with the
projection models `Ca/RoaObjects.lean` (which objects a resource class makes from its
configuration) and `Ca/Objects.lean` (key object sets, revisions, revocations, manifests,
repository synchronisation), and evaluates the executable forms of the C01/C03/C14 predicates on
the implementation's own observation (oracle).

Model inputs taken from the observation: times, serial numbers, hashes (what signing produces) and
the configuration after an op (routes, ASPA and router-key definitions).  Model outputs compared:
which objects are made/replaced/removed (and in which aggregation mode), the published-object
sets, revocations, manifest/CRL numbers, key-set roles, the server content after a sync.
-/
import KrillModel.Drivers.SysObjParse
namespace KM.Drv.SysObj
open Lean KM.Drv KM.Ca.Pub

/-! ### Configuration and state -/

structure Cfg where
  agg : Nat := 3
  deagg : Nat := 2
  timing : Timing := {}
  roaReissue : Nat := 4
  aspaReissue : Nat := 4
  bgpsecReissue : Nat := 4
deriving Inhabited

def parseCfg (ws : List String) : Cfg :=
  let n (k : String) (d : Nat) : Nat := ((kv? ws k).bind String.toNat?).getD d
  { agg := n "agg" 3, deagg := n "deagg" 2
    timing := { nextHours := n "next_hours" 24, jitterHours := n "next_jitter" 4, hoursBefore := n "before_next" 8 }
    roaReissue := n "roa_reissue" 4, aspaReissue := n "aspa_reissue" 4, bgpsecReissue := n "bgpsec_reissue" 4 }

/-- Projection model of one resource class of a CA. -/
structure ClassM where
  roas : Roas := {}
  aspas : AspaObjects := []
  routers : RouterCerts := []
  res : Res := .atoms []
  hasKey : Bool := false
  curKey : Nat := 0
  newKey : Nat := 0
  newRes : Res := .atoms []
deriving Inhabited

structure CaM where
  objs : CaObjects := []
  classes : List (Nat × ClassM) := []
deriving Inhabited

/-- Ghost record of the oracle: an object seen published under a key set. -/
structure Seen where
  ca : String
  rcn : Nat
  crl : Nat
  name : Nat
  serial : Nat
  expires : Nat
deriving DecidableEq, Inhabited

structure St where
  cfg : Cfg := {}
  cas : List (String × CaM) := []
  prev : Json := .null
  synced : Bool := true
  seen : List Seen := []
  /-- (child ca, rcn, old key token) of activated key rolls awaiting the revocation response -/
  revokeWait : List (String × String × String) := []
  /-- CAs whose manifest/CRL were re-issued by a command that schedules no repository sync -/
  unsynced : List String := []
  /-- key tokens whose revocation the parent acknowledged but did not carry out -/
  ignoredRevokes : List String := []
  /-- key sets (ca, crl name) whose `next_update` the harness op `age` rewrote and that have not been
  re-issued since: their manifest/CRL still carry the old next-update -/
  aged : List (String × Nat) := []
  /-- … those among them where a class-name mapping points at a class the parent does not have -/
  ignoredMissing : List String := []
  /-- do not report the recorded finding `ServerMatchesObjects/reissue-without-sync` -/
  tolerant : Bool := false
  /-- evaluate only the oracle predicates of this property ("" = all) -/
  prop : String := ""
deriving Inhabited

def getCa (st : St) (h : String) : CaM := ((st.cas.find? (·.1 == h)).map (·.2)).getD {}

def setCa (st : St) (h : String) (m : CaM) : St :=
  { st with cas := (st.cas.filter (·.1 != h)) ++ [(h, m)] }

def getClass (m : CaM) (rcn : Nat) : ClassM := (get? m.classes rcn).getD {}

def setClass (m : CaM) (rcn : Nat) (c : ClassM) : CaM := { m with classes := put m.classes rcn c }

/-! ### Events → model events -/

def evType (e : Json) : String := jstr (jget e "type")
def evRcn (e : Json) : Nat := enc (jstr (jget e "resource_class_name"))

/-- Name of a simple ROA: from the implementation's own state before the op, else computed. -/
def hexName (key : String) : String :=
  String.join (key.toUTF8.toList.map fun b =>
    let ds := Nat.toDigits 16 b.toNat
    String.ofList (if ds.length < 2 then '0' :: ds else ds)) ++ ".roa"

def simpleRoaName (prevCa : Json) (rcn : String) (key : String) : Nat :=
  match jpath prevCa ["resources", rcn, "roas", "simple", key, "uri"] with
  | .str u => enc (lastSeg u)
  | _ => enc (hexName key)

/-- Router-certificate name for an AS: the key token comes from the CA's definitions/certificates. -/
def routerName (cas : List Json) (asn : Nat) : Nat :=
  let pfx := s!"ROUTER-{hex8 asn}-"
  let cands : List String := cas.flatMap fun ca =>
    jkeys (jget ca "bgpsec_defs") ++
      (jfields (jget ca "resources")).flatMap fun (_, rc) => jkeys (jget rc "bgpsec_certificates")
  match cands.find? (·.startsWith pfx) with
  | some k => enc (k ++ ".cer")
  | none => enc (pfx ++ "?.cer")

def postHash (postSets : List SetO) (name : Nat) (serial : Nat) : Nat :=
  match postSets.findSome? fun s => (s.pub.find? fun e => e.1 == name && e.2.serial == serial) with
  | some e => e.2.hash
  | none => 0

def certObj (j : Json) : Nat × PubObj :=
  (enc (jstr (jget j "name")),
    ⟨jtok (jget j "serial"), jnat (jpath j ["validity", "not_after"]), jtok (jget j "hash")⟩)

/-- Fresh set for a key (`KeyObjectSet::create`), signing inputs from the observed set. -/
def issueInOf (t : Timing) (o : SetO) : IssueIn :=
  let now := o.thisU + 300
  -- (`publish_next()` and `five_minutes_ago()` read the clock one after the other: the two instants
  --  can straddle a second boundary, then next-update is one second short of a whole minute)
  { now, jitterMin := (o.nextU - now + 1) / 60 - t.nextHours * 60, crlHash := o.crlHash,
    mftHash := o.mftHash, mftSerial := o.mftSerial }

def findSetO (post : List (Nat × ClassO)) (rcn crl : Nat) : Option SetO :=
  ((get? post rcn).map (·.sets)).bind fun l => l.find? (·.crlName == crl)

def newSetFor (t : Timing) (post : List (Nat × ClassO)) (rcn : Nat) (keyJ : Json) : NewKey :=
  let kid := jstr (jget keyJ "key_id")
  let base := enc (jstr (jpath keyJ ["incoming_cert", "ca_repository"]))
  let crl := enc (kid ++ ".crl")
  let i := ((findSetO post rcn crl).map (issueInOf t)).getD { now := 300 }
  -- the set may have been re-issued since its creation: creation time inputs are those of the
  -- first issue; only number 1 sets are compared on them
  { base, crlName := crl, mftName := enc (kid ++ ".mft"), i }

/-- Translate one stored event. `prevCa`/`postCa`: the CA's serialised state before/after the op. -/
def toObjEvent (t : Timing) (prevCa postCa : Json) (post : List (Nat × ClassO)) (now : Nat) (e : Json) : ObjEvent :=
  let rcnS := jstr (jget e "resource_class_name")
  let rcn := enc rcnS
  let u := jget e "updates"
  let postSets := ((get? post rcn).map (·.sets)).getD []
  match evType e with
  | "roas_updated" =>
    let added := ((jfields (jget u "updated")) ++ (jfields (jget u "aggregate_updated"))).map fun (_, v) =>
      let m := parseMeta v
      (m.name, metaPub m)
    let removed := ((jarr (jget u "removed")).map fun k => simpleRoaName prevCa rcnS (jstr k)) ++
      ((jarr (jget u "aggregate_removed")).map fun k => enc (jstr k ++ ".roa"))
    .roasUpdated rcn { added, removed }
  | "aspa_objects_updated" =>
    let added := (jarr (jget u "updated")).map fun v => let m := parseMeta v; (m.name, metaPub m)
    let removed := (jarr (jget u "removed")).map fun c => enc s!"AS{jnat c}.asa"
    .aspasUpdated rcn { added, removed }
  | "bgp_sec_certificates_updated" =>
    let added := (jarr (jget u "updated")).map fun v =>
      let name := routerName [prevCa, postCa] (jnat (jget v "asn"))
      let serial := jtok (jget v "serial")
      (name, (⟨serial, jnat (jget v "expires"), postHash postSets name serial⟩ : PubObj))
    let removed := (jarr (jget u "removed")).map fun k => enc (jstr k ++ ".cer")
    .bgpsecUpdated rcn { added, removed }
  | "child_certificates_updated" =>
    .certsUpdated rcn
      { removed := (jarr (jget u "removed")).map fun k => enc (jstr k ++ ".cer")
        issued := (jarr (jget u "issued")).map certObj
        unsuspended := (jarr (jget u "unsuspended")).map certObj
        suspended := (jarr (jget u "suspended")).map fun c => enc (jstr (jget c "name")) }
  | "key_pending_to_active" => .keyPendingToActive rcn (newSetFor t post rcn (jget e "current_key"))
  | "key_pending_to_new" => .keyPendingToNew rcn (newSetFor t post rcn (jget e "new_key"))
  | "key_roll_activated" => .keyRollActivated rcn now
  | "key_roll_finished" => .keyRollFinished rcn
  | "certificate_received" => .certificateReceived rcn
  | "resource_class_removed" => .resourceClassRemoved rcn
  | "repo_updated" => .repoUpdated
  | _ => .other

/-- Signing inputs by the *model's* current roles, values from the observed sets of the same key.
A set that the observation after the op no longer has (the old set of a roll re-issued and then
dropped by `KeyRollFinish` within one `pump`) was signed at the instant of the step (`clock`): with
an arbitrary small instant its next-update would look overdue and the next non-forced re-issue of
the class would be predicted although the code does none. -/
def mkIns (t : Timing) (o : CaObjects) (post : List (Nat × ClassO)) (clock : Nat := 300) : IssueInputs := fun rcn =>
  let f (s : KeyObjectSet) : IssueIn := ((findSetO post rcn s.crlName).map (issueInOf t)).getD { now := clock }
  match get? o rcn with
  | some (.current c) => (f c, f c)
  | some (.staging s c) => (f s, f c)
  | some (.old c ol) => (f ol, f c)
  | none => ({ now := 300 }, { now := 300 })

/-- One command's pre-save listener on the model (`preSave` with inputs chosen after the events). -/
def preSaveStep (t : Timing) (o : CaObjects) (evs : List ObjEvent) (now : Nat) (post : List (Nat × ClassO)) :
    Option (CaObjects × Bool) :=
  match applyEvents t o evs with
  | none => none
  | some (o', force) => some (reIssue o' force now t (mkIns t o' post now))

/-! ### Comparing model sets with observed sets -/

def revLt (a b : Revocation) : Bool := a.serial < b.serial || (a.serial == b.serial && a.expires < b.expires)

def pubLt (a b : Nat × PubObj) : Bool := a.1 < b.1

def showRevs (l : List Revocation) : String :=
  ",".intercalate ((sortBy revLt l).map fun r => s!"{dec r.serial}/{r.expires}")

def showPub (l : List (Nat × PubObj)) : String :=
  ",".intercalate ((sortBy pubLt l).map fun e => s!"{dec e.1}:{dec e.2.serial}")

/-- Differences between a model set and the observed set (empty = equal). -/
def diffSet (m : KeyObjectSet) (o : SetO) : List String :=
  (if m.crlName == o.crlName && m.mftName == o.mftName then [] else [s!"names {dec m.crlName}≠{dec o.crlName}"]) ++
  (if m.base == o.base then [] else [s!"base {dec m.base}≠{dec o.base}"]) ++
  (if m.revision.number == o.number then [] else [s!"number model={m.revision.number} impl={o.number}"]) ++
  (if m.revision.thisUpdate == o.thisU && m.revision.nextUpdate ≤ o.nextU + 1 && o.nextU ≤ m.revision.nextUpdate + 1 then []
    else [s!"times model={m.revision.thisUpdate}..{m.revision.nextUpdate} impl={o.thisU}..{o.nextU}"]) ++
  (if sortBy revLt m.revocations == sortBy revLt o.revs then []
    else [s!"revocations model=[{showRevs m.revocations}] impl=[{showRevs o.revs}]"]) ++
  (if sortBy pubLt m.published == sortBy pubLt o.pub then []
    else [s!"published model=[{showPub m.published}] impl=[{showPub o.pub}]"]) ++
  (if m.manifest.hash == o.mftHash && m.manifest.serial == o.mftSerial && m.crl.hash == o.crlHash then []
    else ["manifest/crl identity"]) ++
  (if m.manifest.number == o.number && m.crl.number == o.number then [] else ["mft/crl number"])

def kindOf : ClassObjects → String
  | .current _ => "current"
  | .staging _ _ => "staging"
  | .old _ _ => "old"

def diffCa (h : String) (m : CaObjects) (o : List (Nat × ClassO)) : List String :=
  let mk := sortNats (keys m)
  let ok := sortNats (keys o)
  if mk != ok then [s!"{h}: classes model={mk.map dec} impl={ok.map dec}"] else
  m.flatMap fun (rcn, c) =>
    match get? o rcn with
    | none => []
    | some oc =>
      if kindOf c != oc.kind then [s!"{h}/{dec rcn}: key state model={kindOf c} impl={oc.kind}"] else
      ((c.sets.zip oc.sets).flatMap fun (ms, os) => diffSet ms os).map fun d => s!"{h}/{dec rcn}: {d}"

end KM.Drv.SysObj
