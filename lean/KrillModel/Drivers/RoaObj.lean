/- Driver for stream `roaobj`: `Roas::create_updates` / `mode` / `create_renewal` / `apply_updates`
driven at volume through `krill::verif::roa_objects` (harness `roaobj`), judged with the model
`Ca/RoaObjects.lean`: the mode, the plan (which objects are issued, replaced, removed), the state
after applying it, and the oracle `PayloadsExact` on the implementation's own state. -/
import KrillModel.Drivers.SysObjProj
namespace KM.Drv.RoaObj
open Lean KM.Drv KM.Ca.Pub KM.Drv.SysObj

/-- `A:v4:I.J/L[-M]` / `A:v6:I.J/L[-M]`. -/
def parseSpec (s : String) : Option Payload :=
  match s.splitOn ":" with
  | [a, fam, rest] =>
    let asn : Option Nat := if a == "z" then some 0 else a.toNat?.map (64512 + ·)
    match rest.splitOn "/", asn with
    | [ij, lens], some asn =>
      let lm : Option (Nat × Nat) := match lens.splitOn "-" with
        | [l, m] => do pure ((← l.toNat?), (← m.toNat?))
        | [l] => do let x ← l.toNat?; pure (x, x)
        | _ => none
      match (ij.splitOn ".").mapM String.toNat?, lm with
      | some [i, j], some (l, m) =>
        if fam == "v4" then some ⟨asn, false, ((10 * 256 + i) * 256 + j) * 256, l, m⟩
        else some ⟨asn, true, (((0x2001 * 65536 + 0x0db8) * 65536 + i) * 65536 + j) * 2 ^ 64, l, m⟩
      | _, _ => none
    | _, _ => none
  | _ => none

def parseResArg (s : String) : Res :=
  if s == "all" then .all else .atoms ((s.splitOn ",").filterMap String.toNat?)

structure St where
  roas : Roas := {}
  synced : Bool := true
deriving Inhabited

def modeName : RoaMode → String
  | .simple => "simple" | .stopAggregating => "stop" | .startAggregating => "start" | .aggregate => "aggregate"

/-- Oracle: the payloads of the objects the implementation holds = routes ∩ covered, once each. -/
def oracle (routes : List Payload) (res : Res) (obs : Json) : List String :=
  let r := parseRoas (jget obs "roas")
  let want := sortP (routes.filter res.coversPfx)
  if sortP r.payloads == want then [] else ["PayloadsExact"]

def step (st : St) (ws : List String) (obs : Json) : St × String :=
  let ev : Option Json := if jisNull (jget obs "updates") then none else some obs
  let obsPlan := evRoaPlan ev
  let implRoas := roaSig (parseRoas (jget obs "roas"))
  match ws with
  | "upd" :: _ =>
    let agg := ((kv? ws "agg").bind String.toNat?).getD 0
    let deagg := ((kv? ws "deagg").bind String.toNat?).getD 0
    let res := parseResArg ((kv? ws "res").getD "all")
    let specs := ((kv? ws "routes").getD "-").splitOn ","
    let routes := (specs.filter (· != "-")).filterMap parseSpec
    if routes.length != (specs.filter (· != "-")).length then (st, "bad-op unparsable route spec") else
    let orc := oracle routes res obs
    if !st.synced then
      (st, if orc.isEmpty then "skip unsynced" else s!"FAIL oracle {" ".intercalate orc}")
    else
    let rel := relevant res.coversPfx routes
    let mode := st.roas.mode rel.length deagg agg
    let plan := st.roas.plan res.coversPfx routes deagg agg
    let roas' := st.roas.apply (plan.sign (mintSimple ev) (mintAgg ev))
    let errs :=
      (if modeName mode == jstr (jget obs "mode") then [] else
        [s!"mode model={modeName mode} impl={jstr (jget obs "mode")} (total={rel.length} deagg={deagg} agg={agg})"]) ++
      cmpRoaPlan "create_updates" plan obsPlan ++
      (if roaSig roas' == implRoas then [] else [s!"state after apply model={roaSig roas'} impl={implRoas}"])
    if !orc.isEmpty then ({ st with roas := roas' }, s!"FAIL oracle {" ".intercalate orc}")
    else if errs.isEmpty then
      let t := if rel.length == agg || rel.length + 1 == agg || rel.length == agg + 1 then "@agg" else ""
      let d := if rel.length == deagg || rel.length + 1 == deagg || rel.length == deagg + 1 then "@deagg" else ""
      ({ st with roas := roas' }, s!"ok upd:{modeName mode}{if plan.isEmpty then "-noop" else ""}{t}{d}")
    else ({ st with synced := false }, s!"FAIL model {" ;; ".intercalate errs}")
  | "renew" :: _ =>
    if !st.synced then (st, "skip unsynced") else
    let force := (kv? ws "force") == some "1"
    let weeks := ((kv? ws "reissue").bind String.toNat?).getD 4
    let now := jnat (jget obs "now")
    let plan := st.roas.planRenewal force (thrOf now weeks)
    let roas' := st.roas.apply (plan.sign (mintSimple ev) (mintAgg ev))
    let errs := cmpRoaPlan "create_renewal" plan obsPlan ++
      (if roaSig roas' == implRoas then [] else [s!"state after apply model={roaSig roas'} impl={implRoas}"])
    -- renewal keeps the payloads
    let keeps := sortP roas'.payloads == sortP st.roas.payloads
    if !keeps then ({ st with roas := roas' }, "FAIL oracle ReissueKeepsPayloads")
    else if errs.isEmpty then
      ({ st with roas := roas' }, s!"ok renew:{if force then "force" else "due"}{if plan.isEmpty then "-none" else ""}")
    else ({ st with synced := false }, s!"FAIL model {" ;; ".intercalate errs}")
  | _ => (st, "bad-op " ++ " ".intercalate ws)

def main : IO Unit := do
  let stdin ← IO.getStdin
  jloop stdin ({} : St) step {}

end KM.Drv.RoaObj
