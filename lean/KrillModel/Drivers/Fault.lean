/- Driver for stream `fault` (C08): judges one `faultcut` line per enumerated cut. -/
import KrillModel.Fault.Model
import KrillModel.Fault.FsOrder
import KrillModel.Drivers.Json
namespace KM.Drv.Fault
open KM.Drv Lean

/-- Classification of an observed mutation `kind:path`. -/
inductive MK where
  | objects (ca : String)
  | taskStore
  | command (ca : String)
  | claim            -- move_value tasks/pending → running: a task starts (scheduler)
  | other
deriving Repr, BEq

/-- On the disk back-end a `store` has two fault points: before anything happens (`store`) and
after the scope directory exists but before the value is written (`store_after_mkdir`); the
value is in the store only when both were passed.  `twoPoint` says whether the log has them. -/
def classify (twoPoint : Bool) (m : String) : MK :=
  match m.splitOn ":" with
  | kind0 :: rest =>
    let kind := if twoPoint then (if kind0 == "store" then "store_pre" else if kind0 == "store_after_mkdir" then "store" else kind0) else kind0
    let path := ":".intercalate rest
    let segs := path.splitOn "/"
    match kind, segs with
    | "store", ["ca_objects", f] => .objects ((f.splitOn ".json").headD f)
    | "store", ["cas", ca, f] => if f.startsWith "command-" then .command ca else .other
    | "store", "tasks" :: "pending" :: _ => .taskStore
    | "move_value", "tasks" :: "pending" :: _ => .claim
    | _, _ => .other
  | _ => .other

/-- The model's order (`KM.Fault.execMuts`): within the mutations of one command – i.e. since
the previous command record or task start – the object-set write and the task writes precede
the command record; nothing of that command follows its record.  Returns the index of the
first mutation violating the order. -/
def orderViolation (ms : List MK) : Option Nat :=
  let rec go (i : Nat) (ms : List MK) (sawCmd : Option String) : Option Nat :=
    match ms with
    | [] => none
    | m :: rest =>
      match m with
      | .command ca => go (i + 1) rest (some ca)
      | .objects ca =>
        -- an object-set write of `ca` right after `ca`'s command record (same command) is out of order
        if sawCmd == some ca then some i else go (i + 1) rest sawCmd
      | .claim => go (i + 1) rest none
      | .taskStore => go (i + 1) rest sawCmd
      | .other => go (i + 1) rest sawCmd
  go 0 ms none

/-- Abstract instance of the fault model for one command with `nTasks` task writes and an
optional object-set write: used to predict whether the command is logged at cut `k`. -/
def inst (hasObj : Bool) (nTasks : Nat) : KM.Fault.Sys Nat Unit Unit Unit Nat Nat where
  init := 0
  process := fun _ _ => .ok [()]
  apply := fun s _ => s + 1
  objUpd := fun o _ _ => if hasObj then some (o + 1) else none
  tasks := fun _ _ => List.range nTasks

/-- File-system mutation `kind:repo/rrdp/<session>/<serial>/<random>/<file>` → order model.
The generation is the serial; the commit is the rename of the new notification file and names
the serial written last. -/
def fsMuts (muts : List String) : List KM.Fault.Fs.Mut :=
  let rec go (ms : List String) (last : Nat) (acc : List KM.Fault.Fs.Mut) : List KM.Fault.Fs.Mut :=
    match ms with
    | [] => acc.reverse
    | m :: rest =>
      match m.splitOn ":" with
      | kind :: p :: _ =>
        let segs := p.splitOn "/"
        match segs with
        | "repo" :: "rrdp" :: tail =>
          let serial? : Option Nat := (tail.drop 1).head? >>= String.toNat?
          let file := tail.getLastD ""
          if kind == "rename" && file == "new-notification.xml" then go rest last (.commit last :: acc)
          else if kind.startsWith "remove" || (kind == "rename" && tail.length == 2) then
            -- a serial directory (or its snapshot) removed or archived
            match serial? with
            | some g => if tail.length == 2 || file == "snapshot.xml" then go rest last (.cleanup g :: acc) else go rest last (.other :: acc)
            | none => go rest last (.other :: acc)
          else if file == "snapshot.xml" then
            match serial? with
            | some g => go rest g (.write g :: acc)
            | none => go rest last (.other :: acc)
          else go rest last (.other :: acc)
        | _ => go rest last (.other :: acc)
      | _ => go rest last (.other :: acc)
  go muts 0 []

/-- The disk before the operation, as far as the order model needs it: the notification names
the serial before the first one written, and that generation is present. -/
def fsInitial (ms : List KM.Fault.Fs.Mut) : KM.Fault.Fs.Disk :=
  match ms.findSome? (fun m => match m with | .write g => some g | _ => none) with
  | some g => ⟨g - 1, [g - 1]⟩
  | none => ⟨0, [0]⟩

def opKind (ws : List String) : String :=
  match ws.dropWhile (· != "::") with
  | _ :: k :: _ => k
  | _ => "?"

structure St where
  dummy : Unit := ()

/-- Per-entity verdicts of the theorem predicates (`KM.Props.C08`), evaluated on what the
implementation showed at the instant of the cut.  `n_logged`/`n_total`: how many of the
operation's commands for this entity are in the audit log / are stored by the fault-free run. -/
def entityPreds (e : Json) : List String :=
  let nl := jnat (jget e "n_logged")
  let nt := jnat (jget e "n_total")
  let b (k : String) := (jbool? (jget e k)).getD false
  if nl == 0 then
    -- nothing of the request is in the log: the state must be the old one (log_state_atomic),
    -- and so must the published-object set (full atomicity; false of this code: F-C08-1)
    (if b "state_is_before" then [] else ["log_state_atomic"]) ++
    (if b "objects_is_before" then [] else ["atomic:objects-ahead"])
  else if nl == nt then
    -- the whole request is logged: state and object set must be the new ones
    (if b "state_is_after" then [] else ["log_state_atomic"]) ++
    (if b "objects_is_after" then [] else ["objects_never_behind"])
  else []   -- a request made of several commands, cut between them: judged by convergence only

def isHandle (s : String) : Bool := s == "ta" || (s.length == 1 && s.all Char.isAlpha)

def genSeg (s : String) : String :=
  let s := (s.splitOn "[").headD s
  if isHandle s then "*" else
  match s.splitOn "-" with
  | [p, h] => if isHandle h then p ++ "-*" else s
  | _ => if s.all Char.isDigit && !s.isEmpty then "N" else s

def diffClass (d : String) : String :=
  -- path of the first difference with handles, indices and numbers generalised
  let segs := (d.splitOn ":").headD "?" |>.splitOn "/" |>.filter (· ≠ "")
  "/".intercalate ((segs.take 5).map genSeg)

def step (st : St) (ws : List String) (j : Json) : St × String :=
  match ws with
  | "faultcut" :: mode :: domain :: _ =>
    let muts := (jarr (jget j "muts")).map jstr
    let twoPoint := muts.any (·.startsWith "store_after_mkdir:")
    let mks := muts.map (classify twoPoint)
    let cut := jnat (jget j "cut")
    let kind := opKind ws
    let firstClaim := (mks.findIdx? (· == .claim)).getD mks.length
    let entNames := (jarr (jget j "ent_names")).map jstr
    let firstCmd := mks.findIdx? (fun m => match m with | .command ca => entNames.contains ca | _ => false)
    -- correspondence (crash mode, single-command requests): the model instantiated with the
    -- observed listener writes predicts whether the record is in the log at this cut
    let ents := jfields (jget j "ents")
    let single := ents.all fun (_, e) => jnat (jget e "n_total") ≤ 1
    let predLogged : Option Bool := match firstCmd with
      | some ic =>
        if ic < firstClaim && single && mode == "crash" && (domain == "kv" || domain == "kvcold") && cut < firstClaim then
          let seg := mks.take ic
          let hasObj := seg.any (fun m => match m with | .objects _ => true | _ => false)
          let nT := (seg.filter (· == .taskStore)).length
          let kModel := ((mks.take cut).filter (fun m => match m with
            | .objects _ => true | .taskStore => true | .command _ => true | _ => false)).length
          some (KM.Fault.logged (inst hasObj nT) ⟨[], 0, []⟩ () kModel)
        else none
      | none => none
    let implLogged := ents.any fun (_, e) => jnat (jget e "n_logged") > 0
    -- file-system cuts: the observed order of the repository writer must follow the
    -- discipline `fs_every_cut_valid` assumes
    let fsBad : Option Nat := if domain == "fs" then
        let fm := fsMuts muts
        KM.Fault.Fs.firstBad (fsInitial fm) fm 0
      else none
    -- a cut at which the files on disk are already inconsistent is reported as that (the
    -- concrete failing cut); the order breach alone is reported for the other cuts
    let diskBad := !(jarr (jget j "rrdp_disk_at_cut")).isEmpty
    if let (some i, false) := (fsBad, diskBad) then
      (st, s!"FAIL model file-system order: mutation {i} ({muts.getD i "?"}) breaks the writer's discipline (commit only what is written, remove only what the notification does not name)")
    else
    match predLogged with
    | some p =>
      if p != implLogged then
        (st, s!"FAIL model model predicts logged={p} at cut {cut} ({muts.getD cut "?"}), implementation logged={implLogged}")
      else judge st kind mode domain cut firstClaim firstCmd ents j
    | none => judge st kind mode domain cut firstClaim firstCmd ents j
  | _ => (st, s!"ok trivial:{ws.headD "?"}")
where
  judge (st : St) (kind mode domain : String) (cut firstClaim : Nat) (firstCmd : Option Nat)
      (ents : List (String × Json)) (j : Json) : St × String :=
    let conv := (jbool? (jget j "converged")).getD false
    let loadP := jarr (jget j "load_problems")
    let rpP := jarr (jget j "rp_problems_at_cut")
    let orc : List String :=
      (if loadP.isEmpty then [] else ["crash_loads"]) ++
      (if rpP.isEmpty then [] else ["rp_valid_at_cut"]) ++
      ((jarr (jget j "rrdp_disk_at_cut")).map fun p => s!"rrdp_files_valid_at_cut:{jstr p}") ++
      ((jarr (jget j "rrdp_disk_final")).map fun p => s!"rrdp_files_valid_after_recovery:{jstr p}") ++
      (if cut < firstClaim then (ents.flatMap fun (_, e) => entityPreds e).eraseDups else []) ++
      (if conv then [] else [s!"converge:{diffClass (jstr (jget j "diff"))}"])
    if orc.isEmpty then
      let phase := if cut < firstClaim then (match firstCmd with
          | some ic => if cut ≤ ic then "before-record" else "after-record"
          | none => "no-record") else "in-task"
      (st, s!"ok faultcut:{kind}/{mode}/{domain}/{phase}")
    else (st, "FAIL oracle " ++ " ".intercalate orc)

def main : IO Unit := do
  let stdin ← IO.getStdin
  jloop stdin ({} : St) step {}

end KM.Drv.Fault
