/- Driver for stream `fault` (C08): judges one `faultcut` line per enumerated cut. -/
import KrillModel.Fault.Model
import KrillModel.Drivers.Json
namespace KM.Drv.Fault
open KM.Drv Lean

/-- Classification of an observed mutation `kind:path`. -/
inductive MK where
  | objects (ca : String)
  | taskStore
  | command (ca : String)
  | claim            -- move_value tasks/pending → running: a task starts (scheduler)
  | other
deriving Repr, BEq

def classify (m : String) : MK :=
  match m.splitOn ":" with
  | kind :: rest =>
    let path := ":".intercalate rest
    let segs := path.splitOn "/"
    match kind, segs with
    | "store", ["ca_objects", f] => .objects ((f.splitOn ".json").headD f)
    | "store", ["cas", ca, f] => if f.startsWith "command-" then .command ca else .other
    | "store", "tasks" :: "pending" :: _ => .taskStore
    | "move_value", "tasks" :: "pending" :: _ => .claim
    | _, _ => .other
  | _ => .other

/-- The model's order (`KM.Fault.execMuts`): within the mutations of one command – i.e. since
the previous command record or task start – the object-set write and the task writes precede
the command record; nothing of that command follows its record.  Returns the index of the
first mutation violating the order. -/
def orderViolation (ms : List MK) : Option Nat :=
  let rec go (i : Nat) (ms : List MK) (sawCmd : Option String) : Option Nat :=
    match ms with
    | [] => none
    | m :: rest =>
      match m with
      | .command ca => go (i + 1) rest (some ca)
      | .objects ca =>
        -- an object-set write of `ca` right after `ca`'s command record (same command) is out of order
        if sawCmd == some ca then some i else go (i + 1) rest sawCmd
      | .claim => go (i + 1) rest none
      | .taskStore => go (i + 1) rest sawCmd
      | .other => go (i + 1) rest sawCmd
  go 0 ms none

/-- Abstract instance of the fault model for one command with `nTasks` task writes and an
optional object-set write: used to predict whether the command is logged at cut `k`. -/
def inst (hasObj : Bool) (nTasks : Nat) : KM.Fault.Sys Nat Unit Unit Unit Nat Nat where
  init := 0
  process := fun _ _ => .ok [()]
  apply := fun s _ => s + 1
  objUpd := fun o _ _ => if hasObj then some (o + 1) else none
  tasks := fun _ _ => List.range nTasks

def opKind (ws : List String) : String :=
  match ws.dropWhile (· != "::") with
  | _ :: k :: _ => k
  | _ => "?"

structure St where
  dummy : Unit := ()

def step (st : St) (ws : List String) (j : Json) : St × String :=
  match ws with
  | "faultcut" :: mode :: domain :: _ =>
    let muts := (jarr (jget j "muts")).map jstr
    let mks := muts.map classify
    let cut := jnat (jget j "cut")
    let kind := opKind ws
    -- correspondence: mutation order of the implementation = order of the model
    match orderViolation mks with
    | some i => (st, s!"FAIL model mutation-order violated at index {i}: {muts.getD i "?"} (object-set write after its command record)")
    | none =>
      -- model prediction for the first command of the op: logged iff the cut is beyond its record
      let firstCmd := mks.findIdx? (fun m => match m with | .command _ => true | _ => false)
      let firstClaim := (mks.findIdx? (· == .claim)).getD mks.length
      let predLogged : Option Bool := match firstCmd with
        | some ic =>
          if ic < firstClaim then
            let seg := mks.take ic
            let hasObj := seg.any (fun m => match m with | .objects _ => true | _ => false)
            let nT := (seg.filter (· == .taskStore)).length
            -- position of the cut among the model's mutations
            let kModel := ((mks.take cut).filter (fun m => match m with
              | .objects _ => true | .taskStore => true | .command _ => true | _ => false)).length
            some (KM.Fault.logged (inst hasObj nT) ⟨[], 0, []⟩ () kModel)
          else none
        | none => none
      let logHas := (jbool? (jget j "log_has_cmd")).getD false
      let stateCh := (jbool? (jget j "state_changed")).getD false
      let objCh := (jbool? (jget j "objects_changed")).getD false
      let conv := (jbool? (jget j "converged")).getD false
      let loadP := jarr (jget j "load_problems")
      let modelMismatch : Option String :=
        if domain == "kv" && mode == "crash" then
          match predLogged with
          | some p => if p != logHas && cut < firstClaim then
              some s!"model predicts logged={p} at cut {cut}, implementation logged={logHas}" else none
          | none => none
        else none
      match modelMismatch with
      | some msg => (st, s!"FAIL model {msg}")
      | none =>
        let orc : List String :=
          (if loadP.isEmpty then [] else ["crash_loads"]) ++
          (if stateCh && !logHas then ["log_state_atomic"] else []) ++
          (if objCh && !logHas then ["atomic:objects-ahead"] else []) ++
          (if conv then [] else [s!"converge:{jstr (jget j "diff") |>.splitOn ":" |>.headD "?"}"])
        if orc.isEmpty then
          let phase := if cut < firstClaim then (match firstCmd with
              | some ic => if cut ≤ ic then "before-record" else "after-record"
              | none => "no-record") else "in-task"
          (st, s!"ok faultcut:{kind}/{mode}/{domain}/{phase}")
        else (st, "FAIL oracle " ++ " ".intercalate orc)
  | _ => (st, s!"ok trivial:{ws.headD "?"}")

def main : IO Unit := do
  let stdin ← IO.getStdin
  jloop stdin ({} : St) step {}

end KM.Drv.Fault
