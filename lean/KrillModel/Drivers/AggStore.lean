/- Line-protocol driver for the event-sourcing stores (stream `aggstore`).

Each trace line is `<op> => <observation>`; the observation carries the result of the call
and the stored view of the entity (`keys=… log=… snap=…`).  The driver
* runs the generic store model instantiated with the test aggregate / test WAL type in
  lock-step and compares result and view (`FAIL model …`),
* evaluates the executable property predicates of `ES/Obs.lean` on the *implementation's own*
  observations (`FAIL oracle <predicate names>`),
* compares the critical sections every store call ran (`sec=…`, from the event log of
  `krill::verif::lockpoint`) with the generated table of the stores' methods
  (`Generated/StoreSections.lean` through `ES/Sections.lean`: `FAIL model sections`) and requires
  one section per call (`single_section`) and one acknowledged init command per handle whose
  `command-0` is the acknowledged caller's (`exactly_one_init`). -/
import KrillModel.ES.Reg
import KrillModel.ES.Bag
import KrillModel.ES.Obs
import KrillModel.Sys.Interleave
import KrillModel.ES.Sections
import KrillModel.Drivers.Util
namespace KM.Drv.AggStore
open KM.ES KM.ES.Obs KM.Drv

/-! ### rendering of the test aggregate / WAL type -/

def joinWith (sep : String) (l : List String) : String := sep.intercalate l

def showRegCmd : Reg.Cmd → String
  | .add n => s!"add{n}"
  | .sub n => s!"sub{n}"
  | .setName s => s!"name{s}"
  | .multi n => s!"multi{n}"
  | .fail => "fail"
  | .guarded n => s!"guarded{n}"

def showRegEv : Reg.Ev → String
  | .added n => s!"a{n}"
  | .subbed n => s!"s{n}"
  | .renamed s => s!"r{s}"
  | .guardedAdd n => s!"g{n}"

def showRegErr : Reg.Err → String
  | .tooBig => "tooBig"
  | .underflow => "underflow"
  | .rejected => "rejected"
  | .veto => "veto"
  | .badInit => "badInit"

def regRender (iv : Nat) : Render (Reg.regAgg iv) where
  st := fun (s : Reg.St) => s!"{s.count}:{s.name}"
  cmd := showRegCmd
  evs := fun (l : List Reg.Ev) => joinWith ";" (l.map showRegEv)
  initEv := fun (s : String) => s
  err := showRegErr

def showItems (l : List Nat) : String :=
  if l.isEmpty then "-" else joinWith "." (l.map toString)

def bagRender : WRender Bag.bagT where
  st := showItems
  changes := fun (l : List Bag.Change) =>
    joinWith ";" (l.map fun c => match c with | .put x => s!"p{x}" | .del x => s!"d{x}")
  err := fun (e : Bag.Err) => match e with | .missing => "missing" | .rejected => "rejected"

/-! ### parsing observations -/

def parseEffect (s : String) : Option OEffect :=
  if s.startsWith "init(" then some (.init ((s.drop 5).dropEnd 1).toString)
  else if s.startsWith "ok[" then some (.ok ((s.drop 3).dropEnd 1).toString)
  else if s.startsWith "err(" then some (.err ((s.drop 4).dropEnd 1).toString)
  else none

/-- `n:actor:version:details:effect` -/
def parseOCmd (s : String) : Option OCmd :=
  match s.splitOn ":" with
  | [n, actor, ver, details, eff] => do
    let n ← n.toNat?
    let v ← ver.toNat?
    let e ← parseEffect eff
    pure ⟨n, actor, v, details, e⟩
  | _ => none

/-- `n:revision:[changes]` -/
def parseWCmd (s : String) : Option OCmd :=
  match s.splitOn ":" with
  | [n, rev, ch] => do
    let n ← n.toNat?
    let r ← rev.toNat?
    pure ⟨n, "", r, "", .ok ((ch.drop 1).dropEnd 1).toString⟩
  | _ => none

def parseList {α} (f : String → Option α) (s : String) : Option (List α) :=
  if s == "-" || s == "" then some [] else (s.splitOn ",").mapM f

/-- `version:state…` (the state may contain further colons). -/
def parseSnap (s : String) : Option (Option (Nat × String)) :=
  if s == "-" then some none
  else match s.splitOn ":" with
    | v :: rest => v.toNat?.map fun n => some (n, ":".intercalate rest)
    | [] => none

def parseRet (s : String) : Option ORet :=
  match s.splitOn ":" with
  | "ok" :: v :: rest => v.toNat?.map fun n => .ok n (":".intercalate rest)
  | ["err", k] => some (.err k)
  | ["ok"] => some (.ok 0 "")
  | ["err"] => some (.err "")
  | _ => none

def parseView (ows : List String) (wal : Bool) : Option OView := do
  let keys ← parseList some ((kv? ows "keys").getD "-")
  let cmds ← if wal then parseList parseWCmd ((kv? ows "wal").getD "-")
             else parseList parseOCmd ((kv? ows "log").getD "-")
  let snap ← parseSnap ((kv? ows "snap").getD "-")
  pure { keys, cmds, snap }

/-- `version:actor:details:result` -/
def parseORec (s : String) : Option ORec :=
  match s.splitOn ":" with
  | [v, actor, details, res] => v.toNat?.map fun n => ⟨n, actor, details, res⟩
  | _ => none

def showRet : ORet → String
  | .ok v st => s!"ok:{v}:{st}"
  | .err k => s!"err:{k}"

def showEffect : OEffect → String
  | .init s => s!"init({s})"
  | .ok s => s!"ok[{s}]"
  | .err s => s!"err({s})"

def showView (v : OView) : String :=
  let cmds := v.cmds.map fun c => s!"{c.key}:{c.actor}:{c.version}:{c.details}:{showEffect c.effect}"
  let snap := match v.snap with | none => "-" | some (n, s) => s!"{n}:{s}"
  s!"keys={joinWith "," v.keys} log={joinWith "," cmds} snap={snap}"

def parseRegCmd (kind : String) (arg : Option String) : Option Reg.Cmd :=
  let n := arg.bind String.toNat?
  match kind with
  | "add" => n.map .add
  | "sub" => n.map .sub
  | "name" => arg.map .setName
  | "multi" => n.map .multi
  | "fail" => some .fail
  | "guarded" => n.map .guarded
  | _ => none

def parseBagCmd (kind : String) (arg : Option String) : Option Bag.Cmd :=
  let n := arg.bind String.toNat?
  match kind with
  | "put" => n.map .put
  | "del" => n.map .del
  | "clear" => some .clear
  | "fill" => n.map .fill
  | "fail" => some .fail
  | _ => none

def parseItems (s : String) : Option (List Nat) :=
  if s == "-" then some [] else (s.splitOn ".").mapM String.toNat?

/-! ### string-keyed association lists -/

def sget {β} (l : List (String × β)) (k : String) : Option β :=
  (l.find? (·.1 == k)).map (·.2)

def sset {β} (l : List (String × β)) (k : String) (v : β) : List (String × β) :=
  (k, v) :: l.filter (·.1 != k)

/-! ### driver state -/

structure DSt (iv : Nat) where
  ents : List (String × Ent (Reg.regAgg iv)) := []
  wents : List (String × Wal.Ent Bag.bagT) := []
  fault : Bool := false
  /-- disk back-end (from the `config` line) -/
  disk : Bool := false
  /-- implementation side: last observed view / state per handle -/
  iviews : List (String × OView) := []
  istate : List (String × String) := []
  /-- handles that were dropped at least once in this case (for the finding signature) -/
  dropped : List String := []
  /-- concurrent runs: per handle the acknowledged commands (actor, result) -/
  acked : List (String × String × ORet) := []
  /-- a lock log was seen: this case is a concurrent run (actors are unique per command) -/
  conc : Bool := false
  /-- per handle the actor of the acknowledged init command (since the last `drop`) -/
  inits : List (String × String) := []
  /-- `real` lines (a real krill aggregate, no model): last observed version -/
  realV : Nat := 0
  synced : Bool := true

structure St where
  iv : Nat := 1
  prop : String := ""
  d : DSt iv := {}

def DSt.ent {iv} (d : DSt iv) (h : String) : Ent (Reg.regAgg iv) := (sget d.ents h).getD {}
def DSt.went {iv} (d : DSt iv) (h : String) : Wal.Ent Bag.bagT := (sget d.wents h).getD {}
def DSt.iview {iv} (d : DSt iv) (h : String) : OView := (sget d.iviews h).getD {}

/-- Result of running the model on one op: new state, expected result text, expected view
(if the op shows one), branch tag. -/
structure MOut (iv : Nat) where
  d : DSt iv
  ret : String
  view : Option OView
  branch : String

def outBranch {A : Agg} : Out A → String
  | .ok _ => "ok"
  | .err _ => "rejected"
  | .unknown => "unknown"
  | .duplicate => "duplicate"
  | .kvErr => "kv-error"
  | .fatal => "fatal"
  | .panic => "panic"

def wOutBranch {T : Wal.WalT} : Wal.Out T → String
  | .ok _ => "ok"
  | .err _ => "rejected"
  | .unknown => "unknown"
  | .kvErr => "kv-error"
  | .fatal => "fatal"
  | .panic => "panic"

def cacheTag {A : Agg} (e : Ent A) (i : Nat) : String :=
  match alookup e.cache i with
  | some v => if e.kv.hasCmd v.version then "cache-behind" else "cache-hit"
  | none => if e.kv.snapshot.isSome then "from-snapshot" else if e.kv.hasCmd 0 then "from-init" else "absent"

def wCacheTag {T : Wal.WalT} (e : Wal.Ent T) (i : Nat) : String :=
  match alookup e.cache i with
  | some v => if (e.kv.getWal v.revision).isSome then "cache-behind" else "cache-hit"
  | none => if e.kv.snapshot.isSome then "from-snapshot" else "absent"

/-- The model's `check`: every instance reads, then a fresh store, then replay from scratch. -/
def modelCheck {iv} (e : Ent (Reg.regAgg iv)) : Ent (Reg.regAgg iv) × List ORet :=
  let R := regRender iv
  let r0 := getLatest e 0
  let r1 := getLatest r0.1 1
  let r2 := getLatest r1.1 2
  (r2.1, [oRet R r0.2, oRet R r1.2, oRet R r2.2, oRet R (loadFresh r2.1), oRet R (loadScratch r2.1)])

def modelStep {iv : Nat} (d : DSt iv) (op : List String) : Option (MOut iv) :=
  let R := regRender iv
  let aggOut (h : String) (r : Ent (Reg.regAgg iv) × Out (Reg.regAgg iv)) (br : String) : MOut iv :=
    { d := { d with ents := sset d.ents h r.1 }, ret := showRet (oRet R r.2),
      view := some (oView R r.1.kv), branch := br }
  let walOut (h : String) (r : Wal.Ent Bag.bagT × Wal.Out Bag.bagT) (br : String) : MOut iv :=
    { d := { d with wents := sset d.wents h r.1 }, ret := showRet (wRet bagRender r.2),
      view := some (wView bagRender r.1.kv), branch := br }
  match op with
  | ["config", _, _] => some { d := d, ret := "ok", view := none, branch := "config" }
  | ["fault", onoff] =>
    some { d := { d with fault := onoff == "on" }, ret := "ok", view := none, branch := onoff }
  | ["add", i, h, actor, name] => do
    let i ← i.toNat?
    let r := add (d.ent h) i actor name d.fault
    pure (aggOut h r (outBranch r.2))
  | "cmd" :: i :: h :: actor :: kind :: rest => do
    let i ← i.toNat?
    let c ← parseRegCmd kind rest.head?
    let e := d.ent h
    let r := command e i ⟨actor, c⟩ d.fault
    let br := match r.2 with
      | .ok _ => if (oCmds R r.1.kv).length == (oCmds R e.kv).length then "noop" else "accepted"
      | .err x => if showRegErr x == "veto" then "presave-veto" else "rejected"
      | o => outBranch o
    pure (aggOut h r s!"{kind}/{br}/{cacheTag e i}")
  | ["get", i, h] => do
    let i ← i.toNat?
    let e := d.ent h
    let r := getLatest e i
    pure (aggOut h r s!"{outBranch r.2}/{cacheTag e i}")
  | ["snap", i, h] => do
    let i ← i.toNat?
    let e := d.ent h
    let r := saveSnapshot e i d.fault
    pure (aggOut h r s!"{outBranch r.2}/{cacheTag e i}")
  | ["has", _, h] =>
    some { d := d, ret := toString (has (d.ent h)), view := none, branch := toString (has (d.ent h)) }
  | ["list", _] =>
    let hs := sortBy (fun a b => decide (a < b)) ((d.ents.filter fun (_, e) => listed e).map (·.1))
    some { d := d, ret := if hs.isEmpty then "-" else joinWith "," hs, view := none,
           branch := toString hs.length }
  | ["restart", i] => do
    let i ← i.toNat?
    pure { d := { d with ents := d.ents.map fun (h, e) => (h, restart e i) }, ret := "ok",
           view := none, branch := "restart" }
  | ["drop", i, h, obs] => do
    -- `obs` is the observed result (appended by `stepD`): deleting a scope that does not
    -- exist succeeds on the memory back-end and fails on disk (`remove_dir_all`); when it
    -- fails `drop_aggregate` returns before touching the cache.
    let i ← i.toNat?
    let e := d.ent h
    let absent := (oKeys e.kv).isEmpty
    if absent && obs == "err" then
      pure { d := d, ret := "err", view := some (oView R e.kv), branch := "absent-err" }
    else
      let e' := dropAggregate e i
      pure { d := { d with ents := sset d.ents h e' }, ret := "ok", view := some (oView R e'.kv),
             branch := if absent then "absent-ok" else "existing" }
  | ["hist", i, h, offset, rows, after] => do
    let i ← i.toNat?
    let offset ← offset.toNat?
    let crit : Criteria := { offset, rows := rows.toNat?, afterVersion := after.toNat? }
    let cached := i != 1
    let e := d.ent h
    let r := commandHistory e i cached crit
    let recs := r.2.commands.map fun x =>
      let o := oRec R x; s!"{o.version}:{o.actor}:{o.details}:{o.result}"
    let br := (if cached then (if (alookup e.hcache i).isSome then "cache-warm" else "cache-cold") else "uncached")
      ++ (if offset > 0 || rows.toNat?.isSome || after.toNat?.isSome then "/paged" else "/all")
    pure { d := { d with ents := sset d.ents h r.1 },
           ret := s!"ok total={r.2.total} offset={r.2.offset} recs={if recs.isEmpty then "-" else joinWith "," recs}",
           view := some (oView R r.1.kv), branch := br }
  | ["check", h] =>
    let r := modelCheck (d.ent h)
    let names := ["live0", "live1", "live2", "fresh", "scratch"]
    let txt := joinWith " " ((names.zip r.2).map fun (n, x) => s!"{n}={showRet x}")
    some { d := { d with ents := sset d.ents h r.1 }, ret := txt, view := some (oView R r.1.kv),
           branch := if has r.1 then (if r.1.kv.snapshot.isSome then "with-snapshot" else "no-snapshot") else "absent" }
  -- WAL store
  | ["wadd", i, h, items] => do
    let i ← i.toNat?
    let items ← parseItems items
    let e := d.went h
    let r := Wal.add e i ⟨0, items⟩ d.fault d.disk
    let ret := match r.2 with | .ok _ => "ok" | _ => "err:kv"
    pure { d := { d with wents := sset d.wents h r.1 }, ret := ret,
           view := some (wView bagRender r.1.kv),
           branch := if e.kv.exists then "overwrite" else "new" }
  | "wcmd" :: i :: h :: kind :: rest => do
    let i ← i.toNat?
    let c ← parseBagCmd kind rest.head?
    let e := d.went h
    let r := Wal.sendCommand e i c d.fault
    let br := match r.2 with
      | .ok _ => if (wCmds bagRender r.1.kv).length == (wCmds bagRender e.kv).length then "noop" else "changed"
      | o => wOutBranch o
    pure (walOut h r s!"{kind}/{br}/{wCacheTag e i}")
  | ["wget", i, h] => do
    let i ← i.toNat?
    let e := d.went h
    let r := Wal.getLatest e i
    pure (walOut h r s!"{wOutBranch r.2}/{wCacheTag e i}")
  | ["wsnap", i, h] => do
    let i ← i.toNat?
    let e := d.went h
    let r := Wal.updateSnapshot e i d.fault
    pure (walOut h r s!"{wOutBranch r.2}/{wCacheTag e i}/{if e.kv.wals.isEmpty then "nothing-to-truncate" else "truncate"}")
  | ["wrestart", i] => do
    let i ← i.toNat?
    pure { d := { d with wents := d.wents.map fun (h, e) => (h, Wal.restart e i) }, ret := "ok",
           view := none, branch := "restart" }
  | ["wremove", i, h] => do
    let i ← i.toNat?
    let e := d.went h
    match Wal.remove e i with
    | some e' => pure { d := { d with wents := sset d.wents h e' }, ret := "ok",
                        view := some (wView bagRender e'.kv), branch := "existing" }
    | none => pure { d := d, ret := "err", view := some (wView bagRender e.kv), branch := "absent" }
  | ["wcheck", h] =>
    let e := d.went h
    let r0 := Wal.getLatest e 0
    let r1 := Wal.getLatest r0.1 1
    let rets := [wRet bagRender r0.2, wRet bagRender r1.2, wRet bagRender (Wal.loadFresh r1.1)]
    let txt := joinWith " " ((["live0", "live1", "fresh"].zip rets).map fun (n, x) => s!"{n}={showRet x}")
    some { d := { d with wents := sset d.wents h r1.1 }, ret := txt, view := some (wView bagRender r1.1.kv),
           branch := if e.kv.exists then (if e.kv.wals.isEmpty then "snapshot-only" else "with-wal") else "absent" }
  -- concurrent mode: the per-entity lock log is judged by the oracle only
  | "conclog" :: _ => some { d := d, ret := "ok", view := none, branch := "log" }
  -- `threads` init commands for one new handle, `rounds` times: whatever the order, the model
  -- acknowledges the first and refuses the others (callers alternate between two store objects)
  | ["raceadd", threads, rounds, _] => do
    let n ← threads.toNat?
    let rounds ← rounds.toNat?
    let (_, outs) := (List.range n).foldl
      (fun (acc : Ent (Reg.regAgg iv) × List (Out (Reg.regAgg iv))) k =>
        let r := add acc.1 (k % 2) s!"t{k}" s!"n{k}" d.fault
        (r.1, acc.2 ++ [r.2])) (({} : Ent (Reg.regAgg iv)), [])
    let oks := (outs.filter fun o => match o with | .ok _ => true | _ => false).length
    let dups := (outs.filter fun o => match o with | .duplicate => true | _ => false).length
    pure { d := d, view := none, branch := if oks == 1 then s!"one-of-{n}" else s!"{oks}-of-{n}",
           ret := s!"ok acks={rounds * oks} dups={rounds * dups} other={rounds * (n - oks - dups)} reload={if oks == 1 then rounds else 0} multi=0" }
  -- `threads` workers x `rounds` distinct `put`s to one write-ahead-log entity while another store object keeps
  -- writing the snapshot and pruning the change sets: in every serial order each command is acknowledged and is there
  | ["racewal", threads, rounds, _] => do
    let n ← threads.toNat?
    let rounds ← rounds.toNat?
    let t := n * rounds
    pure { d := d, view := none, branch := s!"wal-{n}x",
           ret := s!"ok acks={t} live={t} fresh={t} extra=0 rev={t} freshrev={t}" }
  -- a real krill aggregate (RepositoryAccess): no model, judged by the oracle only
  | "real" :: kind :: _ => some { d := d, ret := "", view := none, branch := kind }
  | _ => none

/-! ### oracle: the property predicates on the implementation's own observations -/

def isProcessErr (k : String) : Bool :=
  k == "tooBig" || k == "underflow" || k == "rejected" || k == "missing"

def named (name : String) (ok : Bool) : List String := if ok then [] else [name]

/-- The text of what the op observed (`ret=…` for most ops). -/
def obsRet (ows : List String) : String := (kv? ows "ret").getD ""

def parseLockLog (s : String) : Option (List (Nat × Sys.LockEv)) :=
  if s == "-" then some [] else
  (s.splitOn ",").mapM fun w =>
    match w.splitOn ":" with
    | [t, "acq"] => t.toNat?.map (·, Sys.LockEv.acq)
    | [t, "rel"] => t.toNat?.map (·, Sys.LockEv.rel)
    | [t, _] => t.toNat?.map (·, Sys.LockEv.op)
    | _ => none

def oracle {iv} (d : DSt iv) (op ows : List String) : List String :=
  let ret := parseRet (obsRet ows)
  let isCall := match op.head? with
    | some k => k == "cmd" || k == "get" || k == "snap" || k == "wcmd" || k == "wget" || k == "wsnap" ||
        k == "add" || k == "drop"
    | none => false
  -- concurrent runs print the calls without the stored view; they are judged by `conclog`
  -- (well-bracketed) and by the final `check` (`audit_exact`)
  if isCall && (kv? ows "keys").isNone then [] else
  match op with
  | ["add", _, h, actor, name] =>
    let pre := d.iview h
    match parseView ows false, ret with
    | some post, some (.ok _ _) =>
      named "one_key_per_command" post.wellFormed ++
      named "add_stores_init" (pre.cmds.isEmpty && post.cmds == [⟨0, actor, 0, "init", .init name⟩])
    | some post, some (.err _) => named "rejected_add_no_trace" (noTrace pre post)
    | _, _ => ["unparsable-observation"]
  | "cmd" :: _ :: h :: actor :: _ =>
    let pre := d.iview h
    match parseView ows false, ret with
    | some post, some (.ok v _) =>
      named "one_key_per_command" post.wellFormed ++
      named (if post.cmds.length == pre.cmds.length then "noop_no_trace" else "versions_consecutive")
        (acceptedOrNoop pre post actor v)
    | some post, some (.err k) =>
      named "one_key_per_command" post.wellFormed ++
      (if isProcessErr k then named "rejected_only_audit" (rejectedOnlyAudit pre post actor (.err k))
       else if k == "veto" then named "presave_failure_no_trace" (noTrace pre post)
       else named "failed_call_no_trace" (noTrace pre post))
    | _, _ => ["unparsable-observation"]
  | ["get", _, h] =>
    match parseView ows false, ret with
    | some post, some (.ok v st) =>
      named "read_is_prefix_state" (readIsCurrent post v && (sget d.istate h).all (· == st)) ++
      named "read_no_trace" (noTrace (d.iview h) post)
    | some post, some (.err _) => named "read_no_trace" (noTrace (d.iview h) post)
    | _, _ => ["unparsable-observation"]
  | ["snap", _, h] =>
    match parseView ows false, ret with
    | some post, some r =>
      named "snapshot_is_current_state" (snapshotStored (d.iview h) post r &&
        (match r with | .ok v st => readIsCurrent post v && (sget d.istate h).all (· == st) | _ => true)) ++
      named "one_key_per_command" post.wellFormed
    | _, _ => ["unparsable-observation"]
  | ["hist", _, h, offset, rows, after] =>
    match parseView ows false, parseList parseORec ((kv? ows "recs").getD "-"),
          ((kv? ows "total").getD "").toNat? with
    | some post, some recs, some total =>
      named "history_lists_all"
        (historyListsAll post (natOr offset 0) rows.toNat? after.toNat? total recs)
    | _, _, _ => ["unparsable-observation"]
  | ["check", h] =>
    let rets := ["live0", "live1", "live2", "fresh", "scratch"].map fun n => (kv? ows n).bind parseRet
    match parseView ows false with
    | some post =>
      if rets.any (·.isNone) then ["unparsable-observation"] else
      let rs := rets.filterMap id
      named "replay_eq_live" (allAgree rs) ++
      named "audit_exact" (!d.conc || auditExact post ["veto", "unknown", "kv", "duplicate", "fatal", "panic"]
        ((d.acked.filter (·.1 == h)).map (·.2))) ++
      named "read_is_prefix_state" (match rs.head? with
        | some (.ok v st) => readIsCurrent post v && (sget d.istate h).all (· == st)
        | _ => true) ++
      named "one_key_per_command" post.wellFormed
    | none => ["unparsable-observation"]
  | "wcmd" :: _ :: h :: _ =>
    match parseView ows true, ret with
    | some post, some r =>
      named "wal_append_or_no_trace" (walAppendedOrNoop (d.iview h) post r) ++
      named "wal_keys_contiguous" post.walWellFormed
    | _, _ => ["unparsable-observation"]
  | ["wget", _, h] =>
    match parseView ows true with
    | some post => named "read_no_trace" (noTrace (d.iview h) post)
    | none => ["unparsable-observation"]
  | ["wsnap", _, h] =>
    match parseView ows true, ret with
    | some post, some r =>
      named "wal_snapshot_truncates" (walSnapshotTruncates post r) ++
      named "wal_keys_contiguous" post.walWellFormed
    | _, _ => ["unparsable-observation"]
  | ["wcheck", _] =>
    let rets := ["live0", "live1", "fresh"].map fun n => (kv? ows n).bind parseRet
    if rets.any (·.isNone) then ["unparsable-observation"] else
    named "wal_replay_eq_live" (allAgree (rets.filterMap id))
  | "real" :: kind :: _ =>
    let g := fun k => (kv? ows k).getD "?"
    let vf := (g "vf").toNat?.getD 0
    let keys := ((g "keys").splitOn ",")
    let hasSnap := keys.contains "s"
    let changes := kind == "init" || kind == "add" || kind == "remove"
    named "replay_eq_live" (g "pl" == g "pf" && g "pf" == g "ps" && g "af" == g "as" && g "vf" == g "vs") ++
    named "one_key_per_command" (keys == expectedKeys vf hasSnap) ++
    -- accepted and rejected commands alike take exactly one version; nothing else does
    named "versions_consecutive" (if changes && (kind != "init" || obsRet ows == "ok") then vf == d.realV + 1 else vf == d.realV)
  | ["conclog", _] =>
    match parseLockLog ((kv? ows "ev").getD "-") with
    | some evs => named "well_bracketed" (Sys.wellBracketed evs)
    | none => ["unparsable-observation"]
  | _ => []

/-! ### critical sections and init commands -/

open KM.Generated.StoreSections in
/-- The store method an op of the stream calls. -/
def methodOfOp : String → Option StoreMethod
  | "add" => some .agg_add
  | "cmd" => some .agg_command
  | "get" => some .agg_get_latest
  | "snap" => some .agg_save_snapshot
  | "has" => some .agg_has
  | "drop" => some .agg_drop_aggregate
  | "hist" => some .agg_command_history
  | "wadd" => some .wal_add
  | "wcmd" => some .wal_send_command
  | "wget" => some .wal_get_latest
  | "wsnap" => some .wal_update_snapshot
  | "wremove" => some .wal_remove
  | _ => none

/-- `s:has.store|g:` -/
def parseSec (s : String) : Option (List Sections.ObsSec) :=
  if s == "-" then some [] else
  (s.splitOn "|").mapM fun w =>
    match w.splitOn ":" with
    | [k, ops] => some ⟨k, if ops == "" then [] else ops.splitOn "."⟩
    | _ => none

/-- The observed sections of the call, if the line carries them. -/
def obsSections (op ows : List String) : Option (KM.Generated.StoreSections.StoreMethod × List Sections.ObsSec) := do
  let m ← op.head?.bind methodOfOp
  let secs ← (kv? ows "sec").bind parseSec
  pure (m, secs)

/-- `FAIL model sections`: the call ran its storage operations in other critical sections than
the table generated from the source says. -/
def sectionsMismatch (op ows : List String) : Option String :=
  match obsSections op ows with
  | some (m, secs) =>
    if Sections.sectionsFit m secs then none
    else some s!"sections {m.text} observed [{(kv? ows "sec").getD ""}] do not fit the generated table"
  | none => if (kv? ows "sec").isSome && (op.head?.bind methodOfOp).isSome then some "sections unparsable" else none

/-- Ops that are ONE call on one entity: one section, always entered. -/
def entityOp (k : String) : Bool :=
  ["add", "cmd", "get", "snap", "has", "drop", "wadd", "wcmd", "wget", "wsnap"].contains k

/-- `single_section` and `exactly_one_init`, on the implementation's own observations. -/
def sectionOracle {iv} (d : DSt iv) (op ows : List String) : List String :=
  let ret := parseRet (obsRet ows)
  (match obsSections op ows, op.head? with
   | some (_, secs), some k =>
     if k == "hist" then []
     else named "single_section" (Sections.singleSection secs && (!entityOp k || secs.length == 1))
   | _, _ => []) ++
  (match op with
   | ["add", _, h, _, _] =>
     (match ret with
      | some (.ok _ _) => named "exactly_one_init" (!(d.inits.any (·.1 == h)))
      | _ => [])
   | ["check", h] =>
     (match sget d.inits h, parseView ows false with
      | some actor, some post =>
        named "exactly_one_init" (match post.cmds.head? with
          | some c => c.actor == actor && c.effect.isInit
          | none => false)
      | _, _ => [])
   | ["racewal", _, _, _] =>
     let n := fun k => ((kv? ows k).getD "").toNat?
     (match n "acks", n "live", n "fresh", n "extra", n "rev", n "freshrev" with
      | some acks, some live, some fresh, some extra, some rev, some frev =>
        -- none lost (live and after a restart), none applied twice / nothing foreign, one version per command
        named "none_lost_or_twice" (live == acks && fresh == acks && extra == 0) ++
        named "versions_consecutive" (rev == acks && frev == acks)
      | _, _, _, _, _, _ => ["unparsable-observation"])
   | ["raceadd", _, _, _] =>
     let n := fun k => ((kv? ows k).getD "").toNat?
     (match n "acks", n "reload", n "multi" with
      | some acks, some reload, some multi =>
        -- a round with two acknowledged callers, or whose stored / reloaded init command is not the
        -- acknowledged caller's, does not count for `reload`
        named "exactly_one_init" (reload == acks) ++ named "single_section" (multi == 0)
      | _, _, _ => ["unparsable-observation"])
   | _ => [])

/-- Remember what the implementation showed (for the next oracle evaluation). -/
def learn {iv} (d : DSt iv) (op ows : List String) : DSt iv :=
  let h? : Option (String × Bool) := match op with
    | "add" :: _ :: h :: _ | "cmd" :: _ :: h :: _ | "get" :: _ :: h :: _ | "snap" :: _ :: h :: _
    | "drop" :: _ :: h :: _ | "hist" :: _ :: h :: _ => some (h, false)
    | ["check", h] => some (h, false)
    | "wadd" :: _ :: h :: _ | "wcmd" :: _ :: h :: _ | "wget" :: _ :: h :: _ | "wsnap" :: _ :: h :: _
    | "wremove" :: _ :: h :: _ => some (h, true)
    | ["wcheck", h] => some (h, true)
    | _ => none
  match h? with
  | none =>
    if op.head? == some "conclog" then { d with conc := true }
    else if op.head? == some "real" then { d with realV := ((kv? ows "vf").getD "0").toNat?.getD 0 }
    else d
  | some (h, wal) =>
    -- remember what was acknowledged (judged by `audit_exact` in concurrent runs)
    let d := match op, parseRet (obsRet ows) with
      | "cmd" :: _ :: _ :: actor :: _, some r => { d with acked := (h, actor, r) :: d.acked }
      | _, _ => d
    let d := if (kv? ows "keys").isNone then d
      else match parseView ows wal with
      | some v => { d with iviews := sset d.iviews h v }
      | none => d
    let d := if op.head? == some "drop" then
        { d with dropped := h :: d.dropped, istate := d.istate.filter (·.1 != h) } else d
    -- a deleted entity's acknowledged commands and init command are gone with it
    let d := if op.head? == some "drop" && obsRet ows == "ok" then
        { d with acked := d.acked.filter (·.1 != h), inits := d.inits.filter (·.1 != h) } else d
    let d := match op, parseRet (obsRet ows) with
      | ["add", _, _, actor, _], some (.ok _ _) => { d with inits := sset d.inits h actor }
      | _, _ => d
    let r := if op.head? == some "check" then (kv? ows "fresh").bind parseRet else parseRet (obsRet ows)
    match op.head?, r with
    | some "cmd", some (.ok _ st) | some "add", some (.ok _ st) | some "get", some (.ok _ st)
    | some "snap", some (.ok _ st) | some "check", some (.ok _ st) =>
      { d with istate := sset d.istate h st }
    | _, _ => d

/-! ### one step -/

def fmtFail (kind msg : String) : String := s!"FAIL {kind} {msg}"

/-- Which property a predicate of the oracle belongs to (both checks run this stream). -/
def c06Preds : List String :=
  ["replay_eq_live", "wal_replay_eq_live", "snapshot_is_current_state", "wal_snapshot_truncates",
   "wal_keys_contiguous", "wal_append_or_no_trace", "add_stores_init", "krill_usage"]

def ownedBy (prop name : String) : Bool :=
  if prop == "C06" then c06Preds.contains name || name == "unparsable-observation"
  else if prop == "C07" then !(c06Preds.contains name)
  else true

def stepD {iv} (prop : String) (d : DSt iv) (line : String) : DSt iv × String :=
  let (opS, obsS) := splitObs line
  let op := words opS
  let ows := words obsS
  -- krill's usage assumption (the decidable predicates `othersForgotB` / `othersCurrentB` /
  -- `absentB` of the theorems' `dropSafeB` / `safeRunB`), evaluated where it is assumed: the
  -- generated histories must satisfy it
  let usage : List String :=
    if !d.synced then [] else
    match op with
    | ["drop", i, h] => named "krill_usage" (othersForgotB (d.ent h) (natOr i 0))
    | ["wsnap", i, h] => named "krill_usage" (Wal.othersCurrentB (d.went h) (natOr i 0))
    | ["wadd", _, h, _] =>
      named "krill_usage" (Wal.absentB (d.went h) || (d.went h).kv.emptyDir && (d.went h).cache.isEmpty
        && (d.went h).kv.snapshot.isNone && (d.went h).kv.wals.isEmpty)
    | _ => []
  let orc := (oracle d op ows ++ usage ++ sectionOracle d op ows).filter (ownedBy prop)
  let dO := learn d op ows
  -- an extra tag so that the finding signature can tell a history query after a drop
  let orcTxt := " ".intercalate orc ++
    (match op with
     | "hist" :: i :: h :: _ =>
       if d.dropped.contains h && !orc.isEmpty then
         (if i != "1" then " after-drop-history-cache" else " after-drop-uncached") else ""
     | _ => "")
  let opM := if op.head? == some "drop" then op ++ [obsRet ows] else op
  match modelStep d opM with
  | none => (dO, "bad-op " ++ opS)
  | some m =>
    -- carry the oracle bookkeeping over to the model's new state
    let dM := { m.d with iviews := dO.iviews, istate := dO.istate, dropped := dO.dropped,
                          acked := dO.acked, conc := dO.conc, realV := dO.realV, inits := dO.inits }
    if !d.synced then
      if orc.isEmpty then ({ dM with synced := false }, "skip unsynced")
      else ({ dM with synced := false }, fmtFail "oracle" orcTxt)
    else
      -- what the implementation showed
      let obsRetTxt :=
        if op.head? == some "check" || op.head? == some "wcheck" then
          " ".intercalate (ows.filter fun w => w.startsWith "live" || w.startsWith "fresh" || w.startsWith "scratch")
        else if op.head? == some "hist" then
          " ".intercalate (ows.filter fun w => w.startsWith "ret=" || w.startsWith "total=" || w.startsWith "offset=" || w.startsWith "recs=")
            |>.drop 4 |>.toString
        else if op.head? == some "raceadd" || op.head? == some "racewal" then (" ".intercalate ows).drop 4 |>.toString
        else obsRet ows
      let viewOk := match m.view with
        | none => true
        | some v => (kv? ows "keys").isNone || parseView ows (op.head?.any (·.startsWith "w")) == some v
      let retOk := obsRetTxt == m.ret || op.head? == some "conclog" || op.head? == some "real"
      if retOk && viewOk then
        match sectionsMismatch op ows with
        | some msg => (dM, fmtFail "model" (msg ++ (if orc.isEmpty then "" else " ORACLE " ++ orcTxt)))
        | none =>
        if orc.isEmpty then (dM, s!"ok {op.headD ""}:{m.branch}")
        else (dM, fmtFail "oracle" orcTxt)
      else
        let o := if orc.isEmpty then "" else " ORACLE " ++ orcTxt
        let exp := s!"ret={m.ret}" ++ (match m.view with | some v => " " ++ showView v | none => "")
        ({ dM with synced := false }, fmtFail "model" s!"expected [{exp}] observed [{obsS}]{o}")

def step (st : St) (line : String) : St × String :=
  let op := words (splitObs line).1
  match op with
  | ["config", ivS, backend] =>
    let iv := natOr ((ivS.drop 3).toString) 1
    (⟨iv, st.prop, { disk := backend == "backend=disk" }⟩, "ok config:" ++ ivS)
  -- C06: the stored form of a krill command / event / change of the given type and shape reads back
  -- what was written (`from_value (to_value x) = x`, harness `serde_rt.rs`); no state, the only outcome is `ok`
  | "serde" :: ty :: rest =>
    let ret := obsRet (words (splitObs line).2)
    if st.prop == "C07" then (st, "ok trivial:serde")
    else if ret == "ok" then (st, s!"ok serde:{ty}")
    else (st, fmtFail "oracle" s!"stored_form_roundtrips {ty} {" ".intercalate rest} ret={ret}")
  | _ =>
    let r := stepD st.prop st.d line
    (⟨st.iv, st.prop, r.1⟩, r.2)

/-- `prop` = "C06" / "C07" restricts the oracle to that property's predicates ("" = all). -/
def main (prop : String := "") : IO Unit := do
  let stdin ← IO.getStdin
  loop stdin ({ prop := prop } : St) step { prop := prop }

end KM.Drv.AggStore
