/- `sysobjects` driver: the step function (model in lock-step + oracle) and `main`.
See `SysObjModel.lean` for the description. -/
import KrillModel.Drivers.SysObjOracle
namespace KM.Drv.SysObjects
open Lean KM.Drv KM.Ca.Pub KM.Drv.SysObj

/-- Successful stored commands of CA entities, `(handle, command)`, in (entity, version) order. -/
def caCmds (obs : Json) : List (String × Json) :=
  (jarr (jget obs "cmds")).filterMap fun c =>
    let ent := jstr (jget c "entity")
    if ent.startsWith "cas:" && jstr (jget c "result") == "success" then some ((ent.drop 4).toString, c) else none

def dedupS (l : List String) : List String := l.foldl (fun acc x => if acc.contains x then acc else acc ++ [x]) []

/-- How often `republish_all` runs in this op and with which `force`. -/
def republishRuns (ws : List String) (prev : Json) : Nat × Bool :=
  let pend := pendingTasks prev
  let dueBefore := pend.any fun (n, w) => n == "all_cas_republish_if_needed" && w == "due"
  let present := pend.any fun (n, _) => n == "all_cas_republish_if_needed"
  match ws with
  | ["republish", "force"] => (1, true)
  | ["republish", _] => (1, false)
  | ["task", "republish"] => (1, false)
  | ["task", "start"] => (if !present || dueBefore then 1 else 0, false)
  | "pump" :: _ | "task" :: _ => (if dueBefore then 1 else 0, false)
  | _ => (0, false)

/-- Does this op run `renew_objects_all`? -/
def renewRuns (ws : List String) (prev : Json) : Bool :=
  let pend := pendingTasks prev
  let dueBefore := pend.any fun (n, w) => n == "all_cas_renew_objects_if_needed" && w == "due"
  let present := pend.any fun (n, _) => n == "all_cas_renew_objects_if_needed"
  match ws with
  | ["renew"] | ["task", "renew"] => true
  | ["task", "start"] => !present || dueBefore
  | "pump" :: _ | "task" :: _ => dueBefore
  | _ => false

/-- Model of one op for one CA: stored commands (projection + pre-save listener), then the
republish runs.  `clock`: the instant used for due checks. -/
def stepCa (cfg : Cfg) (ws : List String) (prev obs : Json) (clock : Nat) (republishAt : Nat) (h : String)
    (m : CaM) : CaM × Acc :=
  let prevCa := jpath prev ["cas", h]
  let postCa := jpath obs ["cas", h]
  let post := parseCaObjects (jpath obs ["objects", h])
  let now := jnat (jget obs "now")
  let cmds := (caCmds obs).filter (·.1 == h)
  -- the republish task may run before or after the op's commands (queue order): both are tried
  let (runs, force) := republishRuns ws prev
  let doRepublish (m : CaM) (a : Acc) : CaM × Acc :=
    if runs > 0 && !(jisNull postCa) then
      let (o, re) := reissueIfNeeded m.objs force clock cfg.timing (mkIns cfg.timing m.objs post clock)
      ({ m with objs := o }, a.tag (if re then (if force then "republish-forced" else "republish-due") else "republish-notdue"))
    else (m, a)
  -- harness op `age <ca> <which> <hours>`: the next-update of the named sets is rewritten in storage
  -- (an input, like the clock): the model takes the observed value
  let m := match ws with
    | ["age", h', which, _] =>
      if h' != h then m else
      let upd (role : String) (rcn : Nat) (s : KeyObjectSet) : KeyObjectSet :=
        if which == "all" || which == role then
          match findSetO post rcn s.crlName with
          | some o => { s with revision := { s.revision with nextUpdate := o.nextU } }
          | none => s
        else s
      { m with objs := m.objs.map fun (rcn, c) => match c with
          | .current c0 => (rcn, .current (upd "current" rcn c0))
          | .staging sg c0 => (rcn, .staging (upd "staging" rcn sg) (upd "current" rcn c0))
          | .old c0 ol => (rcn, .old (upd "current" rcn c0) (upd "old" rcn ol)) }
    | _ => m
  let (m, a, _) := cmds.foldl (fun (m, a, idx) (_, cmd) =>
    let (m, a) := if idx == republishAt then doRepublish m a else (m, a)
    let (m, a) := projCmd cfg h postCa now cmd m a
    let evs := (jarr (jget cmd "events")).map (toObjEvent cfg.timing prevCa postCa post clock)
    match preSaveStep cfg.timing m.objs evs clock post with
    | none => (m, a.err s!"{h} v{jnat (jget cmd "version")}: the model's pre-save listener fails", idx + 1)
    | some (o, re) => ({ m with objs := o }, if re then a.tag "reissue" else a, idx + 1)) (m, ({} : Acc), 0)
  -- renewal commands that were *not* stored: nothing may have been due
  let a := if renewRuns ws prev && !(jisNull postCa) then
      let seenKinds := cmds.flatMap fun (_, c) =>
        if jstr (jpath c ["details", "type"]) == "reissue_before_expiring"
        then (jarr (jget c "events")).map evType else []
      m.classes.foldl (fun a (rcn, c) =>
        if !c.hasKey then a else
        let a := if seenKinds.contains "roas_updated" ||
            (c.roas.planRenewal false (thrOf now cfg.roaReissue)).isEmpty then a
          else a.err s!"{h}/{dec rcn}: ROAs due for renewal were not renewed"
        let a := if seenKinds.contains "aspa_objects_updated" ||
            (aspaRenewalPlan c.aspas (some (thrOf now cfg.aspaReissue))).isEmpty then a
          else a.err s!"{h}/{dec rcn}: ASPA objects due for renewal were not renewed"
        if seenKinds.contains "bgp_sec_certificates_updated" ||
            (routerRenewalPlan c.routers (some (thrOf now cfg.bgpsecReissue))).isEmpty then a
          else a.err s!"{h}/{dec rcn}: router certificates due for renewal were not renewed") a
    else a
  let (m, a) := if republishAt ≥ cmds.length then doRepublish m a else (m, a)
  (m, a)

/-- Model part of a step for all CAs with the given clock; returns new CA models and findings. -/
def stepModel (st : St) (ws : List String) (obs : Json) : List (String × CaM) × Acc :=
  let hs := dedupS ((st.cas.map (·.1)) ++ (caCmds obs).map (·.1) ++ handlesOf obs "objects")
  let (cas, acc) := hs.foldl (fun (cas, acc) h =>
    -- a deleted CA leaves the model
    let gone := jisNull (jpath obs ["objects", h]) && jisNull (jpath obs ["cas", h])
    -- the clock is only known to lie between `t0` and `now`, and the republish task may run before
    -- or after the commands: the first candidate that agrees with the observation is taken
    let t0 := jnat (jget obs "t0")
    let now := jnat (jget obs "now")
    let (runs, _) := republishRuns ws st.prev
    let n := ((caCmds obs).filter (·.1 == h)).length
    let positions : List Nat := if runs > 0 then (List.range (n + 1)).reverse else [n]
    -- (the code compares sub-second instants: one second of slack on either side)
    let cands : List (Nat × Nat) :=
      (positions.map fun k => (now + 1, k)) ++ (positions.map fun k => (t0 - 1, k))
    let results := cands.map fun (clock, first) =>
      let (m, a) := stepCa st.cfg ws st.prev obs clock first h (getCa st h)
      let a := if gone then a else
        (a.errsOf (diffCa h m.objs (parseCaObjects (jpath obs ["objects", h])))).errsOf
          (if jisNull (jpath obs ["cas", h]) then [] else diffProj h m (jpath obs ["cas", h]))
      (m, a)
    let (m, a) := match results.find? (·.2.errs.isEmpty) with
      | some r => r
      | none => results.headD ({}, {})
    let cas := if gone then cas else cas ++ [(h, m)]
    (cas, { errs := acc.errs ++ a.errs, tags := a.tags.foldl (fun ts t => if ts.contains t then ts else ts ++ [t]) acc.tags }))
    (([] : List (String × CaM)), ({} : Acc))
  -- repository synchronisation: the model's delta applied to the server content seen before.
  -- Only where the model knows that a sync ran after the CA's last change in this op.
  let isDrain := match ws with
    | "pump" :: _ | "task" :: _ => true
    | _ => false
  let syncEvents := ["roas_updated", "aspa_objects_updated", "child_certificates_updated",
    "bgp_sec_certificates_updated", "child_key_revoked", "key_pending_to_new", "key_pending_to_active",
    "key_roll_finished", "key_roll_activated", "parent_removed", "resource_class_removed"]
  let acc := cas.foldl (fun acc (h, m) =>
    if jisNull (jpath obs ["server", h]) then acc else
    let cmds := (caCmds obs).filter (·.1 == h)
    let lastSyncs := match cmds.getLast? with
      | some (_, c) => (jarr (jget c "events")).any fun e => syncEvents.contains (evType e)
      | none => (pendingTasks st.prev).any fun (n, w) => n == s!"sync_repo_{h}" && w == "due"
    let ran := (ws == ["reposync", h] && jstr (jget obs "ret") == "ok:true") || (isDrain && lastSyncs)
    if !ran || syncPending obs h then acc else
    let split (u : String) : Uri := (enc ((u.dropEnd (lastSeg u).length).toString), enc (lastSeg u))
    let before : List (Uri × Nat) := (serverOf st.prev h).map fun (u, x) => (split u, x)
    let after := (syncRepo before m.objs).map fun (u, x) => (dec u.1 ++ dec u.2, x)
    let seenAfter := serverOf obs h
    if sortBy strPairLt after == sortBy strPairLt seenAfter then acc.tag "synced"
    else acc.err s!"{h}: server content after sync model={(sortBy strPairLt after).map (·.1)} impl={(sortBy strPairLt seenAfter).map (·.1)}")
    acc
  (cas, acc)

/-- Oracle part of a step (implementation's observation only). Returns the new ghost state. -/
def stepOracle (st : St) (ws : List String) (obs : Json) : St × List String :=
  let t0 := jnat (jget obs "t0")
  let now := jnat (jget obs "now")
  let hs := handlesOf obs "objects"
  -- the trust anchor's own objects take part as a CA "ta" with one class and one key
  let taObjs (o : Json) : List (String × List (Nat × ClassO)) :=
    match parseTaSet (jpath o ["ta_proxy", "signer", "objects"]) with
    | some s => [("ta", [(enc "ta", { kind := "current", cur := s })])]
    | none => []
  let objs : List (String × List (Nat × ClassO)) :=
    (hs.map fun h => (h, parseCaObjects (jpath obs ["objects", h]))) ++ taObjs obs
  let prevObjs : List (String × List (Nat × ClassO)) :=
    ((handlesOf st.prev "objects").map fun h => (h, parseCaObjects (jpath st.prev ["objects", h]))) ++ taObjs st.prev
  -- per set and per transition
  let isAge := ws.head? == some "age"
  -- sets aged by this op, and those aged before that have not been re-issued since
  let agedNow : List (String × Nat) := if !isAge then [] else
    objs.flatMap fun (h, cls) => cls.flatMap fun (rcn, c) => c.sets.filterMap fun q =>
      match (prevObjs.find? (·.1 == h)).bind fun (_, pc) => findSetO pc rcn q.crlName with
      | some p => if q.nextU != p.nextU && q.number == p.number then some (h, q.crlName) else none
      | none => none
  let stillAged := st.aged.filter fun (h, crl) =>
    objs.any fun (h', cls) => h' == h && cls.any fun (rcn, c) => c.sets.any fun q =>
      q.crlName == crl &&
        match (prevObjs.find? (·.1 == h)).bind fun (_, pc) => findSetO pc rcn crl with
        | some p => q.number == p.number
        | none => false
  let aged := stillAged ++ agedNow
  let isAged (h : String) (crl : Nat) : Bool := aged.contains (h, crl)
  let p1 := objs.flatMap fun (h, cls) => cls.flatMap fun (_, c) => c.sets.flatMap fun s =>
    setPreds now (isAged h s.crlName) s
  let p2 := objs.flatMap fun (h, cls) => cls.flatMap fun (rcn, c) => c.sets.flatMap fun q =>
    match (prevObjs.find? (·.1 == h)).bind fun (_, pc) => findSetO pc rcn q.crlName with
    | some p => transPreds t0 now isAge p q
    | none => if q.number ≥ 1 then [] else ["NumberPlusOne"]
  -- ghost of everything published
  let evSeen := (caCmds obs).flatMap fun (h, cmd) =>
    let cls := ((objs.find? (·.1 == h)).map (·.2)).getD []
    seenOfEvents h (jpath st.prev ["cas", h]) (jpath obs ["cas", h]) cls cmd fun rcn =>
      ((get? cls rcn).map (·.cur.crlName)).getD 0
  let seen := addSeen (addSeen st.seen (objs.flatMap fun (h, cls) => seenOfSets h cls)) evSeen
  let (seen, p3) := checkSeen now seen objs
  -- payloads and mirror
  let p4 := (handlesOf obs "cas").flatMap fun h =>
    let activated := ((caCmds obs).filter (·.1 == h)).flatMap fun (_, c) =>
      (jarr (jget c "events")).filterMap fun e =>
        if evType e == "key_roll_activated" then some (jstr (jget e "resource_class_name")) else none
    caPreds (jpath obs ["cas", h]) (jpath st.prev ["cas", h]) (((objs.find? (·.1 == h)).map (·.2)).getD []) activated
  -- server content = objects whenever no sync is outstanding
  let syncEvents := ["roas_updated", "aspa_objects_updated", "child_certificates_updated",
    "bgp_sec_certificates_updated", "child_key_revoked", "key_pending_to_new", "key_pending_to_active",
    "key_roll_finished", "key_roll_activated", "parent_removed", "resource_class_removed"]
  let inSync (h : String) : Bool :=
    let want := match objs.find? (·.1 == h) with
      | some (_, cls) => elementsO cls
      | none => []
    sortBy strPairLt want == sortBy strPairLt (serverOf obs h)
  -- a command without sync-scheduling events that nevertheless re-issued (it was due)
  let newlyUnsynced := hs.filter fun h =>
    let cmds := (caCmds obs).filter (·.1 == h)
    !cmds.isEmpty && !(syncPending obs h) &&
    cmds.any (fun (_, c) => (jarr (jget c "events")).all fun e => !(syncEvents.contains (evType e))) &&
    (((objs.find? (·.1 == h)).map (·.2)).getD []).any fun (rcn, c) => c.sets.any fun q =>
      match (prevObjs.find? (·.1 == h)).bind fun (_, pc) => findSetO pc rcn q.crlName with
      | some p => q.number > p.number
      | none => false
  let unsynced := (dedupS (st.unsynced ++ newlyUnsynced)).filter fun h => !(inSync h) && !(syncPending obs h)
  let filesOnly (h : String) : Bool :=
    -- same URIs, only manifest and CRL hashes differ
    let want := match objs.find? (·.1 == h) with
      | some (_, cls) => elementsO cls
      | none => []
    let onSrv := serverOf obs h
    sortS (want.map (·.1)) == sortS (onSrv.map (·.1)) &&
      (want.filter fun w => !(onSrv.contains w)).all fun w => w.1.endsWith ".mft" || w.1.endsWith ".crl"
  let p5 := (handlesOf obs "server").flatMap fun h =>
    if syncPending obs h || inSync h then [] else
    if h == "ta" then ["ServerMatchesObjects/ta"] else
    if unsynced.contains h && filesOnly h then
      (if st.tolerant then [] else ["ServerMatchesObjects/reissue-without-sync"])
    else ["ServerMatchesObjects"]
  -- maintenance runs
  let (runs, force) := republishRuns ws st.prev
  -- (the trust anchor is outside `republish_all`: refreshed by a proxy↔signer exchange only)
  let p6 := if runs == 0 || !(caCmds obs).isEmpty then [] else
    (objs.filter (·.1 != "ta")).flatMap fun (h, cls) => cls.flatMap fun (rcn, c) =>
      let pc := (prevObjs.find? (·.1 == h)).bind fun (_, pcs) => get? pcs rcn
      match pc with
      | none => []
      | some pc =>
        let due (clk : Nat) : Bool := pc.sets.any fun s => decide (clk + st.cfg.timing.hoursBefore * 3600 > s.nextU)
        let bumped := (c.sets.zip pc.sets).all fun (q, p) => q.number == p.number + 1
        let same := (c.sets.zip pc.sets).all fun (q, p) =>
          q.number == p.number && q.mftHash == p.mftHash && q.crlHash == p.crlHash && pubSig q == pubSig p
        let keeps := (c.sets.zip pc.sets).all fun (q, p) => pubSig q == pubSig p
        (if keeps then [] else ["ReissueKeepsPayloads"]) ++
        -- `due` is monotone in the clock; the code compares sub-second instants: a second of slack
        (if force || due (t0 - 1) then (if bumped then [] else ["DueIsReissued", "NumberPlusOne"])
         else if !(due (now + 1)) then (if same then [] else ["NothingDueNothingChanges"])
         else [])
  -- (`task renew` drains every due task: judged only when nothing but renewals was stored)
  let onlyRenewals := (caCmds obs).all fun (_, c) => jstr (jpath c ["details", "type"]) == "reissue_before_expiring"
  let p7 := if !onlyRenewals then [] else match ws with
    | ["renew"] | ["task", "renew"] =>
      (handlesOf obs "cas").flatMap fun h =>
        if jisNull (jpath st.prev ["cas", h]) then [] else
        renewPreds st.cfg t0 now (jpath st.prev ["cas", h]) (jpath obs ["cas", h])
    | _ => []
  -- revocation requests (key roll): activated → wait; finished → the parent must have revoked
  let wait := (caCmds obs).foldl (fun w (h, cmd) =>
    (jarr (jget cmd "events")).foldl (fun w e =>
      if evType e == "key_roll_activated" then
        w ++ [(h, jstr (jget e "resource_class_name"), jstr (jpath e ["revoke_req", "key"]))]
      else w) w) st.revokeWait
  let finished : List (String × String) := (caCmds obs).flatMap fun (h, cmd) =>
    (jarr (jget cmd "events")).filterMap fun e =>
      if evType e == "key_roll_finished" then some (h, jstr (jget e "resource_class_name")) else none
  let p8k : List (String × String) := wait.flatMap fun (h, rcn, key) =>
    if !(finished.contains (h, rcn)) then [] else
    let parent := jstr (jpath st.prev ["cas", h, "resources", rcn, "parent_handle"])
    let pca := jpath obs ["cas", parent]
    if parent == "ta" || jisNull pca then [] else
    let stillPublished := (((objs.find? (·.1 == parent)).map (·.2)).getD []).any fun (_, c) =>
      c.sets.any fun s => s.pub.any fun e => e.1 == enc (key ++ ".cer")
    let used := jpath pca ["children", h, "used_keys", key]
    let revoked := jstr used == "revoked"
    if !stillPublished && revoked then [] else
    let rmap := jfields (jpath pca ["children", h, "rcn_map"])
    let mapped := !rmap.isEmpty
    -- a mapping whose parent-side class does not exist shadows the name the child uses
    let toMissing := rmap.any fun (nameInParent, _) => jisNull (jpath pca ["resources", nameInParent])
    [(if toMissing then "RevokeRequestEffective/mapping-to-missing-class"
      else if mapped then "RevokeRequestEffective/mapped-class-name" else "RevokeRequestEffective", key)]
  let p8 := p8k.map (·.1)
  -- a parent is removed / a CA is deleted: every key the CA held a certificate for under that parent is revoked there
  -- in the same request (best effort) - the current key AND the new or old key of a roll in progress; judged on the
  -- parent's published-object sets (a refused revocation means the parent no longer knows the child: nothing published)
  let goneKeys : List (String × String) := match ws with
    | ["parentrm", h, p] => classKeysOf st.prev h (some p)
    | ["cadelete", h] => classKeysOf st.prev h none
    | _ => []
  let p10 := if !((jstr (jget obs "ret")).startsWith "ok") then [] else goneKeys.flatMap fun (parent, key) =>
    if parent == "ta" || jisNull (jpath obs ["cas", parent]) then [] else
    let still := (((objs.find? (·.1 == parent)).map (·.2)).getD []).any fun (_, c) =>
      c.sets.any fun s => s.pub.any fun e => e.1 == enc (key ++ ".cer")
    if still then ["ClassGoneKeysRevoked"] else []
  let ignored := dedupS (st.ignoredRevokes ++ p8k.map (·.2))
  let ignoredMissing := dedupS (st.ignoredMissing ++
    (p8k.filter (·.1 == "RevokeRequestEffective/mapping-to-missing-class")).map (·.2))
  let wait := wait.filter fun (h, rcn, _) => !(finished.contains (h, rcn)) && !(jisNull (jpath obs ["cas", h]))
  let settled : List String := match ws with
    | ["settle", h, _] => [h]
    | _ => []
  let p9 := rpPreds obs objs (fun h => inSync h && !(syncPending obs h)) ignored ignoredMissing isAged settled
  ({ st with seen, revokeWait := wait, unsynced, ignoredRevokes := ignored, ignoredMissing, aged }, dedupS (p1 ++ p2 ++ p3 ++ p4 ++ p5 ++ p6 ++ p7 ++ p8 ++ p9 ++ p10))

/-- Which property an oracle predicate belongs to. -/
def propsOf (pred : String) : List String :=
  let base := (pred.splitOn "/").headD pred
  if ["PayloadsExact", "AspasExact", "BgpsecExact", "ObjectsMirror", "ManifestListsExactly", "RpTreeValid",
      "RpPayloadsExact", "RpAspasExact", "RpRouterKeysExact"].contains base then ["C01"]
  else if base == "ServerMatchesObjects" then
    (if pred == "ServerMatchesObjects/reissue-without-sync" then ["C14"] else ["C01", "C03"])
  else if ["SupersededRevoked", "CrlListsRevocations", "ChangeForcesReissue", "RevokeRequestEffective",
      "ClassGoneKeysRevoked"].contains base
    then ["C03"]
  else ["C14"]

def opTag (ws : List String) : String :=
  match ws with
  | "task" :: n :: _ => s!"task-{n}"
  | "republish" :: f :: _ => s!"republish-{f}"
  | w :: _ => w
  | [] => "?"

def step (st : St) (ws : List String) (obs : Json) : St × String :=
  match ws with
  | "config" :: rest => ({ st with cfg := parseCfg rest, prev := obs }, "ok config:set")
  | _ =>
    let (stO, orc) := stepOracle st ws obs
    let orc := if st.prop.isEmpty then orc else orc.filter fun p => (propsOf p).contains st.prop
    let stO := { stO with prev := obs }
    let orcS := if orc.isEmpty then "" else " ".intercalate orc
    if !st.synced then
      if orc.isEmpty then (stO, "skip unsynced") else (stO, s!"FAIL oracle {orcS}")
    else
      let (cas, a) := stepModel st ws obs
      if !orc.isEmpty then ({ stO with cas }, s!"FAIL oracle {orcS}")
      else if a.errs.isEmpty then
        let ret := jstr (jget obs "ret")
        let r := if ret.startsWith "err" then "/err" else ""
        ({ stO with cas }, s!"ok {opTag ws}{r}:{"+".intercalate a.tags}")
      else
        ({ stO with cas, synced := false }, s!"FAIL model {" ;; ".intercalate (a.errs.take 6)}")

def main (args : List String) : IO Unit := do
  let stdin ← IO.getStdin
  let tolerant := args.contains "tolerant"
  let prop := (args.find? (·.startsWith "C")).getD ""
  jloop stdin ({ tolerant, prop } : St) step { tolerant, prop }

end KM.Drv.SysObjects
