/- Shared helpers for the line-protocol drivers.  Import-free. -/
namespace KM.Drv

def splitOn (s : String) (sep : String) : List String := s.splitOn sep

def words (s : String) : List String := (s.splitOn " ").filter (· ≠ "")

/-- Split a trace line `op … => obs …` into the two halves. -/
def splitObs (line : String) : String × String :=
  match line.splitOn " => " with
  | [a] => (a, "")
  | a :: rest => (a, " => ".intercalate rest)
  | [] => ("", "")

/-- `key=value` look-up among words. -/
def kv? (ws : List String) (key : String) : Option String :=
  ws.findSome? fun w =>
    if w.startsWith (key ++ "=") then some ((w.drop (key.length + 1)).toString) else none

def natOr (s : String) (d : Nat) : Nat := s.toNat?.getD d

/-- Insert into a list kept sorted by `lt` (used to canonicalise sets). -/
def insertSorted {α} (lt : α → α → Bool) (x : α) : List α → List α
  | [] => [x]
  | y :: ys => if lt x y then x :: y :: ys else y :: insertSorted lt x ys

def sortBy {α} (lt : α → α → Bool) (l : List α) : List α :=
  l.foldl (fun acc x => insertSorted lt x acc) []

/-- Generic stdin loop: `step` gets the state and a line and returns the new state and an
output line.  A line `case <id>` resets the state. -/
partial def loop {σ} (h : IO.FS.Stream) (init : σ) (step : σ → String → σ × String)
    (s : σ) : IO Unit := do
  let line ← h.getLine
  if line.isEmpty then return ()
  let line := (line.dropEndWhile (fun c => c == '\n' || c == '\r')).toString
  if line.startsWith "case " then
    IO.println line
    loop h init step init
  else if line.isEmpty || line.startsWith "#" then
    loop h init step s
  else
    let (s', out) := step s line
    IO.println out
    loop h init step s'

end KM.Drv
