/- Parsing helpers for the `sysobjects` driver: the `system` stream's JSON observation →
the abstract values of `Ca/RoaObjects.lean` and `Ca/Objects.lean`. -/
import KrillModel.Ca.RoaObjects
import KrillModel.Ca.Objects
import KrillModel.Drivers.Json
namespace KM.Drv.SysObj
open Lean KM.Drv KM.Ca.Pub

/-- Injective encoding of strings as numbers (names, serial tokens, hashes, URIs). -/
def enc (s : String) : Nat := s.foldl (fun n c => n * 1114113 + (c.toNat + 1)) 0

partial def dec (n : Nat) : String :=
  if n == 0 then "" else dec (n / 1114113) ++ (Char.ofNat (n % 1114113 - 1)).toString

def lastSeg (uri : String) : String := (uri.splitOn "/").getLast?.getD uri

/-- Token (serial, hash, key id): string or number, encoded. -/
def jtok (j : Json) : Nat :=
  match j with
  | .str s => enc s
  | .null => 0
  | other => match jnat? other with
    | some n => enc (toString n)
    | none => enc other.compress

def hexDigit (c : Char) : Option Nat :=
  if c.isDigit then some (c.toNat - '0'.toNat)
  else if 'a' ≤ c ∧ c ≤ 'f' then some (c.toNat - 'a'.toNat + 10)
  else if 'A' ≤ c ∧ c ≤ 'F' then some (c.toNat - 'A'.toNat + 10)
  else none

def hexNat (s : String) : Option Nat :=
  if s.isEmpty then none else
  s.foldl (fun acc c => match acc, hexDigit c with
    | some n, some d => some (n * 16 + d)
    | _, _ => none) (some 0)

def parseV4 (s : String) : Option Nat :=
  match (s.splitOn ".").mapM String.toNat? with
  | some [a, b, c, d] => some (((a * 256 + b) * 256 + c) * 256 + d)
  | _ => none

def groups (s : String) : Option (List Nat) :=
  if s.isEmpty then some [] else (s.splitOn ":").mapM hexNat

def parseV6 (s : String) : Option Nat :=
  let full : Option (List Nat) :=
    match s.splitOn "::" with
    | [a] => groups a
    | [a, b] => do
      let ga ← groups a
      let gb ← groups b
      pure (ga ++ List.replicate (8 - ga.length - gb.length) 0 ++ gb)
    | _ => none
  match full with
  | some gs => if gs.length == 8 then some (gs.foldl (fun n g => n * 65536 + g) 0) else none
  | none => none

/-- `10.4.0.0/20-20 => 64516`, `2001:db8:3:100::/56-56 => 64515`. -/
def parsePayload (s : String) : Option Payload :=
  match s.splitOn " => " with
  | [pfx, asn] =>
    match pfx.splitOn "/", asn.toNat? with
    | [addr, lens], some a =>
      let v6 := addr.contains ':'
      let lm : Option (Nat × Nat) := match lens.splitOn "-" with
        | [l, m] => do pure ((← l.toNat?), (← m.toNat?))
        | [l] => do let x ← l.toNat?; pure (x, x)
        | _ => none
      match (if v6 then parseV6 addr else parseV4 addr), lm with
      | some ad, some (l, m) => some ⟨a, v6, ad, l, m⟩
      | _, _ => none
    | _, _ => none
  | _ => none

def payloadLt (a b : Payload) : Bool :=
  a.asn < b.asn || (a.asn == b.asn && ((!a.v6 && b.v6) || (a.v6 == b.v6 &&
    (a.addr < b.addr || (a.addr == b.addr && (a.len < b.len || (a.len == b.len && a.maxLen < b.maxLen)))))))

def showPayload (p : Payload) : String :=
  s!"{if p.v6 then "v6" else "v4"}:{p.addr}/{p.len}-{p.maxLen}=>{p.asn}"

/-- `{"atoms":[…]}` / `{"all":true}`. -/
def parseRes (j : Json) : Res :=
  match jatoms? j with
  | some l => .atoms l
  | none => if (jbool? (jget j "all")).getD false then .all else .atoms []

/-- `AS64513` → aggregate key. -/
def parseAggKey (s : String) : Option AggKey :=
  if s.startsWith "AS" then
    match ((s.drop 2).toString).splitOn "-" with
    | [a] => a.toNat?.map fun n => ⟨n, none⟩
    | [a, g] => do pure ⟨(← a.toNat?), some (← g.toNat?)⟩
    | _ => none
  else none

/-- `ROUTER-0000FC01-K5` → router key. -/
def parseRouterKey (s : String) : Option RouterKey :=
  match s.splitOn "-" with
  | ["ROUTER", a, k] => (hexNat a).map fun n => ⟨n, enc k⟩
  | _ => none

def hex8 (n : Nat) : String :=
  let ds := (Nat.toDigits 16 n).map Char.toUpper
  String.ofList (List.replicate (8 - ds.length) '0' ++ ds)

/-- Meta data of a ROA/ASPA info record `{hash, serial, uri, validity{not_after}}`. -/
def parseMeta (j : Json) : ObjMeta :=
  { name := enc (lastSeg (jstr (jget j "uri"))), serial := jtok (jget j "serial"),
    expires := jnat (jpath j ["validity", "not_after"]), hash := jtok (jget j "hash") }

def metaPub (m : ObjMeta) : PubObj := ⟨m.serial, m.expires, m.hash⟩

/-- A ROA info `{authorizations: [...], hash, serial, uri, validity}`. -/
def parseRoaInfo (j : Json) : RoaInfo :=
  { auths := (jarr (jget j "authorizations")).filterMap fun a => parsePayload (jstr a), obj := parseMeta j }

/-- `roas: {simple: {key: info}, aggregate: {key: info}}`. -/
def parseRoas (j : Json) : Roas :=
  { simple := (jfields (jget j "simple")).filterMap fun (k, v) =>
      (parsePayload k).map fun p => (p, parseRoaInfo v)
    agg := (jfields (jget j "aggregate")).filterMap fun (k, v) =>
      (parseAggKey k).map fun a => (a, parseRoaInfo v) }

def parseAspaDefn (j : Json) : AspaDefn :=
  { customer := jnat (jget j "customer"), providers := (jarr (jget j "providers")).map jnat }

/-- `aspas: {"AS64513": {definition, hash, serial, uri, validity}}` (keyed by customer). -/
def parseAspaObjects (j : Json) : AspaObjects :=
  (jfields j).map fun (_, v) =>
    let d := parseAspaDefn (jget v "definition")
    (d.customer, ⟨d, parseMeta v⟩)

/-- `bgpsec_certificates: {"ROUTER-…-K5": {asn, expires, serial}}`. -/
def parseRouterCerts (j : Json) : RouterCerts :=
  (jfields j).filterMap fun (k, v) =>
    (parseRouterKey k).map fun rk =>
      (rk, { name := enc (k ++ ".cer"), serial := jtok (jget v "serial"),
             expires := jnat (jget v "expires"), hash := 0 })

/-- Observed `KeyObjectSet`. -/
structure SetO where
  base : Nat := 0
  crlName : Nat := 0
  mftName : Nat := 0
  number : Nat := 0
  thisU : Nat := 0
  nextU : Nat := 0
  revs : List Revocation := []
  pub : List (Nat × PubObj) := []
  mftSerial : Nat := 0
  mftHash : Nat := 0
  mftExpires : Nat := 0
  crlSerial : String := ""
  crlHash : Nat := 0
  crlExpires : Nat := 0
  res : Res := .atoms []
deriving Inhabited

def parseSet (j : Json) : SetO :=
  { base := enc (jstr (jpath j ["signing_cert", "ca_repository"]))
    crlName := enc (jstr (jpath j ["crl", "name"]))
    mftName := enc (jstr (jpath j ["manifest", "name"]))
    number := jnat (jpath j ["revision", "number"])
    thisU := jnat (jpath j ["revision", "this_update"])
    nextU := jnat (jpath j ["revision", "next_update"])
    revs := (jarr (jget j "revocations")).map fun r => ⟨jtok (jget r "serial"), jnat (jget r "expires")⟩
    pub := (jfields (jget j "published_objects")).map fun (k, v) =>
      (enc k, ⟨jtok (jget v "serial"), jnat (jget v "expires"), jtok (jget v "hash")⟩)
    mftSerial := jtok (jpath j ["manifest", "serial"])
    mftHash := jtok (jpath j ["manifest", "hash"])
    mftExpires := jnat (jpath j ["manifest", "expires"])
    crlSerial := match jpath j ["crl", "serial"] with
      | .str s => s
      | o => o.compress
    crlHash := jtok (jpath j ["crl", "hash"])
    crlExpires := jnat (jpath j ["crl", "expires"])
    res := parseRes (jpath j ["signing_cert", "resources"]) }

/-- Observed class: kind and sets in the model's order (`ClassObjects.sets`). -/
structure ClassO where
  kind : String := "current"
  cur : SetO := {}
  other : Option SetO := none
deriving Inhabited

def ClassO.sets (c : ClassO) : List SetO := match c.other with
  | some o => [o, c.cur]
  | none => [c.cur]

def parseClass (j : Json) : ClassO :=
  let k := jget j "keys"
  let kind := jstr (jget k "type")
  { kind, cur := parseSet (jget k "current_set")
    other := if kind == "staging" then some (parseSet (jget k "staging_set"))
      else if kind == "old" then some (parseSet (jget k "old_set")) else none }

/-- `objects.<h>.classes` → `(rcn, class)`. -/
def parseCaObjects (j : Json) : List (Nat × ClassO) :=
  (jfields (jget j "classes")).map fun (k, v) => (enc k, parseClass v)

/-- The trust anchor's objects (`ta_proxy.signer.objects`, a `TrustAnchorObjects`) as a key set. -/
def parseTaSet (j : Json) : Option SetO :=
  if jisNull (jget j "revision") then none else
  some { base := enc (jstr (jget j "base_uri"))
         crlName := enc (jstr (jpath j ["crl", "name"]))
         mftName := enc (jstr (jpath j ["manifest", "name"]))
         number := jnat (jpath j ["revision", "number"])
         thisU := jnat (jpath j ["revision", "this_update"])
         nextU := jnat (jpath j ["revision", "next_update"])
         revs := (jarr (jget j "revocations")).map fun r => ⟨jtok (jget r "serial"), jnat (jget r "expires")⟩
         pub := (jfields (jget j "issued")).map fun (k, v) =>
           (enc (k ++ ".cer"), ⟨jtok (jget v "serial"), jnat (jpath v ["validity", "not_after"]), jtok (jget v "hash")⟩)
         mftSerial := jtok (jpath j ["manifest", "serial"])
         mftHash := jtok (jpath j ["manifest", "hash"])
         mftExpires := jnat (jpath j ["manifest", "expires"])
         crlSerial := match jpath j ["crl", "serial"] with
           | .str s => s
           | o => o.compress
         crlHash := jtok (jpath j ["crl", "hash"])
         crlExpires := jnat (jpath j ["crl", "expires"])
         res := .all }

def natLt (a b : Nat) : Bool := a < b

def sortNats (l : List Nat) : List Nat := sortBy natLt l

end KM.Drv.SysObj
