/- Line-protocol driver for the stream `proto` (C15: trust anchor proxy/signer, C12: CMS).
The model is driven in lock-step with the harness (`harness/src/bin/proto`): every stored command
of the TA proxy and signer, whatever operation caused it, is replayed on the model's `process` /
`apply`; every CMS message fed to `rfc6492` / `rfc8181` is predicted from its description; the
property predicates are evaluated on the implementation's own observations (oracle). -/
import KrillModel.Ta.System
import KrillModel.Proto.Cms
import KrillModel.Drivers.Json
namespace KM.Drv.Proto
open Lean KM.Drv KM.Ta

/-! ### tokens -/

/-- `K12` / `N3` / `H7` → 12 / 3 / 7; anything else (no key) → 0. -/
def tok (s : String) : Nat := ((s.drop 1).toString.toNat?).getD 0
def jtok (j : Json) : Nat := tok (jstr j)
def jatoms (j : Json) : List Nat := (jatoms? j).getD []

def ltSN (x y : String × Nat) : Bool := x.1 < y.1 || (x.1 == y.1 && x.2 < y.2)
def sortNat (l : List Nat) : List Nat := sortBy (fun a b => a < b) l
def sortStr (l : List String) : List String := sortBy (fun a b => a < b) l
def sameSet (a b : List Nat) : Bool := sortNat a.eraseDups == sortNat b.eraseDups

/-! ### trust anchor: descriptions → model values -/

def reqKind (s : String) : ReqKind := if s == "revoke" then .revoke else .issue

def respKind (s : String) : Resp :=
  if s == "revoked" then .revoked else if s == "error" then .error else .issued 0

def respName : Resp → String
  | .issued _ => "issued" | .revoked => "revoked" | .error => "error"

/-- `[[child, key, kind], …]` -/
def entries (j : Json) : List (String × Nat × String) :=
  (jarr j).filterMap fun e => match jarr e with
    | [c, k, kd] => some (jstr c, jtok k, jstr kd)
    | _ => none

def objectsOf (num : Nat) (iss : Json) : Objects :=
  { number := num, issued := (jarr iss).map fun k => (jtok k, 0) }

def respMsg (m : Json) : Signed RespBody :=
  let clear : RespBody :=
    { nonce := jtok (jget m "nonce"), objects := objectsOf (jnat (jget m "num")) (jget m "iss"),
      entries := (entries (jget m "ent")).map fun (c, k, kd) => ((c, k), respKind kd) }
  let same := (jbool? (jget m "same")).getD false
  { signer := jtok (jget m "sig"), fresh := (jbool? (jget m "fresh")).getD false,
    clear := clear, body := if same then clear else { clear with nonce := clear.nonce + 1000003 } }

def reqMsg (m : Json) : Signed ReqBody :=
  let clear : ReqBody :=
    { nonce := jtok (jget m "nonce"),
      entries := (entries (jget m "ent")).map fun (c, k, kd) =>
        ((c, k), ({ kind := reqKind kd, key := k } : Req)),
      resources := (jfields (jget m "res")).map fun (c, r) => (c, jatoms r) }
  let same := (jbool? (jget m "same")).getD false
  { signer := jtok (jget m "sig"), fresh := (jbool? (jget m "fresh")).getD false,
    clear := clear, body := if same then clear else { clear with nonce := clear.nonce + 1000003 } }

def infoOf (j : Json) : SignerInfo :=
  { idKey := jtok (jget j "id"), taKey := jtok (jget j "tak"),
    objects := objectsOf (jnat (jget j "num")) (jget j "iss") }

def preqOf (j : Json) : Req :=
  { kind := reqKind (jstr (jget j "kind")), key := jtok (jget j "key"),
    cls := if jstr (jget j "cls") == "default" then 0 else 1,
    limit := (jarr (jget j "lim")).filterMap jnat? }

/-! ### trust anchor: projections for comparison -/

structure ChildProj where
  name : String
  res  : List Nat
  req  : List (Nat × String)
  resp : List (Nat × String)
  used : List (Nat × String)
  deriving BEq, Repr

structure ProxyProj where
  openN : Option Nat
  sid : Nat
  tak : Nat
  num : Nat
  iss : List Nat
  ch  : List ChildProj
  deriving BEq, Repr

def sortPairs (l : List (Nat × String)) : List (Nat × String) := sortBy (fun a b => a.1 < b.1) l

def proxyProjOfModel (p : Proxy) : ProxyProj :=
  let names := sortStr (p.children.map (·.1))
  { openN := p.openNonce,
    sid := (p.signer.map (·.idKey)).getD 0, tak := (p.signer.map (·.taKey)).getD 0,
    num := (p.signer.map (·.objects.number)).getD 0,
    iss := sortNat ((p.signer.map (fun s => s.objects.issued.map (·.1))).getD []),
    ch := names.map fun c =>
      { name := c, res := sortNat ((aget p.children c).getD []),
        req := sortPairs ((p.openReq.filter (·.1.1 == c)).map fun e =>
          (e.1.2, if e.2.kind == .issue then "issue" else "revoke")),
        resp := sortPairs ((p.openResp.filter (·.1.1 == c)).map fun e => (e.1.2, respName e.2)),
        used := sortPairs ((p.used.filter (·.1.1 == c)).map fun e =>
          (e.1.2, if e.2 == .inUse then "inuse" else "revoked")) } }

def kvToks (j : Json) : List (Nat × String) := sortPairs ((jfields j).map fun (k, v) => (tok k, jstr v))

def proxyProjOfObs (t : Json) : ProxyProj :=
  { openN := if jisNull (jget t "open") then none else some (jtok (jget t "open")),
    sid := jtok (jget t "sid"), tak := jtok (jget t "tak"), num := jnat (jget t "num"),
    iss := sortNat ((jarr (jget t "iss")).map jtok),
    ch := (jfields (jget t "ch")).map fun (c, d) =>
      { name := c, res := sortNat (jatoms (jget d "res")), req := kvToks (jget d "req"),
        resp := kvToks (jget d "resp"), used := kvToks (jget d "used") } }

structure SignerProj where
  id : Nat
  tak : Nat
  num : Nat
  iss : List Nat
  nex : Nat
  deriving BEq, Repr

def signerProjOfModel (s : Signer) : SignerProj :=
  { id := s.idKey, tak := s.taKey, num := s.objects.number,
    iss := sortNat (s.objects.issued.map (·.1)), nex := s.exchanges.length }

def signerProjOfObs (j : Json) : SignerProj :=
  { id := jtok (jget j "id"), tak := jtok (jget j "tak"), num := jnat (jget j "num"),
    iss := sortNat ((jarr (jget j "iss")).map jtok), nex := jnat (jget j "nex") }

/-! ### state -/

structure St where
  proxy   : Option Proxy := none
  signers : List (String × Signer) := []
  /-- oracle ghost, from the implementation's own events -/
  added    : List CK := []
  answered : List (CK × Resp) := []
  given    : List (CK × Resp) := []
  lastNum  : Option Nat := none
  /-- last `st` of the CMS profile -/
  cms     : Json := Json.null
  synced  : Bool := true
  /-- contents the proxy really signed: (nonce, entries) -/
  madeReq  : List (Nat × List (String × Nat × String)) := []
  /-- contents honest signers really signed: (key, nonce, number, entries) -/
  madeResp : List (Nat × Nat × Nat × List (String × Nat × String)) := []
  /-- the harness (which holds every key) delivered a message no network attacker could have made:
  from here on the history is outside the theorems' scope, the oracle is not consulted -/
  tainted : Bool := false

def slookup (l : List (String × Signer)) (n : String) : Option Signer :=
  (l.find? (·.1 == n)).map (·.2)
def sput (l : List (String × Signer)) (n : String) (s : Signer) : List (String × Signer) :=
  (n, s) :: l.filter (·.1 != n)

def errName : Err → String
  | .hasRepository => "TaProxyAlreadyHasRepository" | .hasSigner => "TaProxyAlreadyHasSigner"
  | .differentSigner => "TaProxyHasDifferentSigner" | .hasRequest => "TaProxyHasRequest"
  | .hasNoRequest => "TaProxyHasNoRequest" | .nonceMismatch => "TaProxyRequestNonceMismatch"
  | .invalidSignature => "Custom" | .noSigner => "TaProxyHasNoSigner"
  | .childDuplicate => "CaChildDuplicate" | .childUnknown => "CaChildUnknown"
  | .badClass => "Custom" | .limitExceeds => "*" | .badCsr => "*" | .unknownKey => "Custom"
  | .noResponse => "Custom" | .responseMismatch => "Custom"

def errTag : Err → String
  | .hasRepository => "has-repo" | .hasSigner => "has-signer" | .differentSigner => "different-signer"
  | .hasRequest => "has-request" | .hasNoRequest => "no-request" | .nonceMismatch => "nonce-mismatch"
  | .invalidSignature => "bad-signature" | .noSigner => "no-signer"
  | .childDuplicate => "child-duplicate" | .childUnknown => "child-unknown"
  | .badClass => "bad-class" | .limitExceeds => "limit-exceeds" | .badCsr => "bad-csr"
  | .unknownKey => "unknown-key" | .noResponse => "no-response" | .responseMismatch => "response-mismatch"

def serrTag : SErr → String
  | .invalidSignature => "bad-signature" | .overrideTooLow => "override-too-low"
  | .badClass => "bad-class" | .limitExceeds => "limit-exceeds"
  | .badCsr => "bad-csr" | .unknownKey => "unknown-key"

/-- One stored TA proxy command → model command. -/
def proxyCmd (c : Json) : Option Cmd :=
  match jstr (jget c "k") with
  | "addrepo" => some .addRepository
  | "addsigner" => some (.addSigner (infoOf (jget c "info")))
  | "updsigner" => some (.updateSigner (infoOf (jget c "info")))
  | "mkreq" => some (.makeSignerRequest (jtok (jget c "nonce")))
  | "resp" => some (.processSignerResponse (respMsg (jget c "m")))
  | "addchild" => some (.addChild (jstr (jget c "c")) (jatoms (jget c "res")))
  | "addreq" => some (.addChildRequest (jstr (jget c "c")) (preqOf (jget c "req")))
  | "give" => some (.giveChildResponse (jstr (jget c "c")) (jtok (jget c "key")))
  | _ => none

/-- Why a response would be refused / that it is accepted: the branch tag. -/
def respBranch (p : Proxy) (m : Signed RespBody) : String :=
  match process p (.processSignerResponse m) with
  | .ok _ => if m.clear.entries.isEmpty then "accepted-empty" else "accepted"
  | .error e =>
    let why := if e == .invalidSignature then
        (if !m.fresh then "expired" else if m.body != m.clear then "altered" else "other-key") else errTag e
    s!"refused-{why}"

structure Acc where
  st : St
  fails : List String := []
  tags : List String := []

def Acc.fail (a : Acc) (msg : String) : Acc := { a with fails := a.fails ++ [msg] }
def Acc.tag (a : Acc) (t : String) : Acc := { a with tags := a.tags ++ [t] }

/-- Replays one stored proxy command on the model; updates the oracle's ghost lists from the
implementation's own result. -/
def stepProxyCmd (a : Acc) (c : Json) (pid : Nat) : Acc :=
  let r := jstr (jget c "r")
  let kind := jstr (jget c "k")
  if kind == "init" then { a with st := { a.st with proxy := some (Proxy.init pid) } }
  else match a.st.proxy, proxyCmd c with
  | some p, some cmd =>
    let (p', res) := exec p cmd
    -- ghost bookkeeping from what the implementation did
    let st := a.st
    let st := if r == "success" then
        match cmd with
        | .addChildRequest ch rq => { st with added := (ch, rq.key) :: st.added }
        | .giveChildResponse ch k =>
          { st with given := ((ch, k), (aget p.openResp (ch, k)).getD .error) :: st.given }
        | .processSignerResponse m =>
          { st with answered := (m.clear.entries.filter fun e => p.known e.1.1).reverse ++ st.answered }
        | _ => st
      else st
    let a := { a with st := { st with proxy := some p' } }
    let tagOf : String := match cmd with
      | .processSignerResponse m => s!"resp/{respBranch p m}"
      | _ => match res with
        | .ok _ => s!"{kind}/ok"
        | .error e => s!"{kind}/{errTag e}"
    let a := a.tag tagOf
    match res, r with
    | .ok _, "success" => a
    | .error _, "error" => a
    | .ok _, _ => a.fail s!"proxy command {kind}: model accepts, implementation result {r}"
    | .error e, _ => a.fail s!"proxy command {kind}: model refuses ({errTag e}), implementation result {r}"
  | _, _ => a

/-- Replays a signer request on the model signer `name`. -/
def stepSign (a : Acc) (name : String) (m : Json) (ovr : Option Nat) (implOk : Bool) (out : Json) : Acc :=
  match slookup a.st.signers name with
  | none => a.tag s!"sign/unknown-signer"
  | some s =>
    let msg := reqMsg m
    match processSignerRequest s msg ovr with
    | .error e =>
      let a := a.tag s!"sign/refused-{if e == .invalidSignature then
          (if !msg.fresh then "expired" else if msg.body != msg.clear then "altered" else "other-key")
          else serrTag e}"
      if implOk then a.fail s!"signer {name}: model refuses ({serrTag e}), implementation processed" else a
    | .ok (s', r) =>
      let a := a.tag s!"sign/processed{if ovr.isSome then "-override" else ""}{if msg.clear.entries.isEmpty then "-empty" else ""}"
      let a := { a with st := { a.st with signers := sput a.st.signers name s' } }
      if !implOk then a.fail s!"signer {name}: model processes, implementation refused"
      else if jisNull out then a
      else
        let o := respMsg out
        let okOut := o.signer == r.signer && o.clear.nonce == r.clear.nonce &&
          o.clear.objects.number == r.clear.objects.number &&
          sameSet (o.clear.objects.issued.map (·.1)) (r.clear.objects.issued.map (·.1)) &&
          sortBy (fun x y => x.1 < y.1 || (x.1 == y.1 && x.2.1 < y.2.1))
              (o.clear.entries.map fun e => (e.1.1, e.1.2, respName e.2)) ==
            sortBy (fun x y => x.1 < y.1 || (x.1 == y.1 && x.2.1 < y.2.1))
              (r.clear.entries.map fun e => (e.1.1, e.1.2, respName e.2))
        if okOut then a else a.fail s!"signer {name}: response differs from the model's"

/-- Executable `exactly_once` on the implementation's own events and observed state. -/
def oracleExactlyOnce (st : St) (t : Json) : List String :=
  let obs := proxyProjOfObs t
  let cks : List CK := (st.added ++ st.answered.map (·.1) ++ st.given.map (·.1) ++
      obs.ch.flatMap (fun c => (c.req.map fun r => (c.name, r.1)) ++ c.resp.map fun r => (c.name, r.1))).eraseDups
  let bad := cks.filter fun ck =>
    let openResp := obs.ch.any fun c => c.name == ck.1 && c.resp.any (·.1 == ck.2)
    let openReq := obs.ch.any fun c => c.name == ck.1 && c.req.any (·.1 == ck.2)
    let ans := cntK st.answered ck
    let giv := cntK st.given ck
    !(ans == giv + (if openResp then 1 else 0) && ans + (if openReq then 1 else 0) ≤ cnt st.added ck)
  if bad.isEmpty then [] else ["exactly_once"]

/-! ### C12 -/

open KM.Proto in
def childRecOf (j : Json) : ChildRec :=
  { idKey := jtok (jget j "id"), suspended := (jbool? (jget j "susp")).getD false,
    resources := jatoms (jget j "res"),
    inUse := (jfields (jget j "keys")).filterMap fun (k, v) =>
      let s := jstr v
      if s.startsWith "inuse:" then some (tok k, (s.drop 6).toString) else none,
    revoked := (jfields (jget j "keys")).filterMap fun (k, v) =>
      if jstr v == "revoked" then some (tok k) else none }

/-- `[key, class, {"atoms"}, [limit atoms]]` -/
def certOf (child : String) (j : Json) : Option KM.Proto.Cert :=
  match jarr j with
  | k :: cl :: r :: l :: _ => some (jtok k, jstr cl, child, jatoms r, (jarr l).filterMap jnat?)
  | _ => none

/-- `[key, class, {"atoms"}, [limit atoms], expiring]` -/
def suspOf (child : String) (j : Json) : Option KM.Proto.SuspCert :=
  match jarr j with
  | [k, cl, r, l, e] =>
    some { key := jtok k, cls := jstr cl, child := child, res := jatoms r,
           limit := (jarr l).filterMap jnat?, expiring := (jbool? e).getD false }
  | _ => none

open KM.Proto in
def caOf (st : Json) (h : String) : Ca :=
  let cj := jfields (jpath st ["reg", h])
  { handle := h, idKey := jtok (jpath st ["ids", h]),
    children := cj.map fun (c, d) => (c, childRecOf d),
    classes := (jfields (jpath st ["cls", h])).map fun (c, r) => (c, jatoms r),
    certs := cj.flatMap fun (c, d) => (jarr (jget d "iss")).filterMap (certOf c),
    suspendedCerts := cj.flatMap fun (c, d) => (jarr (jget d "sus")).filterMap (suspOf c) }

/-! Projection of a CA for comparing the model's state after a request with the observed one:
per child (sorted by name) the suspension flag, the keys in use and revoked, the issued and the
suspended certificates in its slots – canonical key tokens, everything sorted. -/
structure ChildCerts where
  name : String
  susp : Bool
  inUse : List (Nat × String)
  revoked : List Nat
  iss : List (Nat × String × List Nat × List Nat)
  sus : List (Nat × String × List Nat × List Nat × Bool)
  deriving BEq, Repr

/-- The children whose projections differ, model's and implementation's. -/
def projDiff (mine theirs : List ChildCerts) : String :=
  let diff := (mine.zip theirs).filter fun (xy : ChildCerts × ChildCerts) => xy.1 != xy.2
  let m1 : List ChildCerts := diff.map fun xy => xy.1
  let m2 : List ChildCerts := diff.map fun xy => xy.2
  s!"model {repr m1} implementation {repr m2}"

def ltKS (x y : Nat × String) : Bool := x.1 < y.1 || (x.1 == y.1 && x.2 < y.2)

open KM.Proto in
def caProj (ca : Ca) : List ChildCerts :=
  (sortBy (fun (a b : Handle × ChildRec) => a.1 < b.1) ca.children).map fun (c, d) =>
    { name := c, susp := d.suspended, inUse := sortBy ltKS d.inUse.eraseDups,
      revoked := sortNat d.revoked.eraseDups,
      iss := sortBy (fun a b => ltKS (a.1, a.2.1) (b.1, b.2.1))
        (((ca.certs.filter fun ce => ce.2.2.1 == c).map fun ce =>
          (ce.1, ce.2.1, sortNat ce.2.2.2.1, sortNat ce.2.2.2.2)).eraseDups),
      sus := sortBy (fun a b => ltKS (a.1, a.2.1) (b.1, b.2.1))
        (((ca.suspendedCerts.filter fun s => s.child == c).map fun s =>
          (s.key, s.cls, sortNat s.res, sortNat s.limit, s.expiring)).eraseDups) }

open KM.Proto in
def payloadOf (pl : Json) : Payload :=
  match jstr (jget pl "t") with
  | "list" => .list
  | "issue" => .issue (jstr (jget pl "cls")) (jtok (jget pl "key"))
      ((jarr (jget pl "lim")).filterMap jnat?) true
  | "revoke" => .revoke (jstr (jget pl "cls")) (jtok (jget pl "key"))
  | _ => .errorResponse 0

open KM.Proto in
def signed6492 (d : Json) : Option (KM.Proto.Signed Msg) :=
  if (jbool? (jget d "dec")).getD false then
    some { signer := jtok (jget d "sig"), fresh := (jbool? (jget d "fresh")).getD false,
           body := { sender := jstr (jget d "sender"), recipient := jstr (jget d "recip"),
                     payload := payloadOf (jget d "pl") } }
  else none

def uriOf (base : String) (u : String) : List String :=
  let full := if u.startsWith "~/" then base ++ (u.drop 2).toString else u
  (full.splitOn "/").filter (· ≠ "")

open KM.Proto in
def serverOf (st : Json) : Server :=
  { idKey := jtok (jget st "srv"),
    publishers := (jfields (jget st "pubs")).map fun (h, d) =>
      let base := jstr (jget d "base")
      (h, { idKey := jtok (jget d "id"), base := uriOf base "~/",
            files := (jarr (jget d "files")).filterMap fun f => match jarr f with
              | [u, hh] => some (uriOf base (jstr u), jtok hh)
              | _ => none }) }

open KM.Proto in
def signed8181 (d : Json) (base : String) : Option (KM.Proto.Signed PMsg) :=
  if (jbool? (jget d "dec")).getD false then
    let pl := jget d "pl"
    let body : PMsg := match jstr (jget pl "t") with
      | "list" => .listQuery
      | "delta" => .delta ((jarr (jget pl "els")).filterMap fun e => match jarr e with
          | [k, u, h] => if jstr k == "pub" then some (.publish (uriOf base (jstr u)) (jtok h))
                         else some (.withdraw (uriOf base (jstr u)) (jtok h))
          | [_, u, old, new] => some (.update (uriOf base (jstr u)) (jtok old) (jtok new))
          | _ => none)
      | _ => .success
    some { signer := jtok (jget d "sig"), fresh := (jbool? (jget d "fresh")).getD false, body := body }
  else none

def refusalTag : KM.Proto.Refusal → String
  | .undecodable => "undecodable" | .unknownSender => "unknown-sender" | .badSignature => "bad-signature"
  | .processing => "processing-error" | .taNotRemote => "ta-not-remote"

/-- State parts a request may touch. -/
def chgOutside (chg : List String) (allowed : List String) : List String :=
  chg.filter fun c => !(allowed.any fun a => c == a || (a.endsWith "*" && c.startsWith (a.dropEnd 1).toString))

open KM.Proto in
def step6492 (a : Acc) (caName : String) (flip : Bool) (obs : Json) : Acc :=
  let st := a.st.cms
  let d := jget obs "desc"
  let ret := jstr (jget obs "ret")
  let chg := (jarr (jget obs "chg")).map jstr
  let replied := ret.startsWith "reply:"
  let known := (jkeys (jget st "ids")).contains caName
  if ret == "noslot" then a.tag "send6492/noslot" else
  if !known && caName != "ta" then
    -- no such CA: nothing can happen
    let a := a.tag "send6492/no-such-ca"
    if replied || !chg.isEmpty then a.fail "request to an unknown CA had an effect" else a
  else
  let ca : Ca := if caName == "ta" then { handle := "ta", idKey := 0 } else caOf st caName
  let sg := signed6492 d
  let (ca', out) := rfc6492 (fun (_ : Unit) => sg) ca ()
  -- oracle, on the implementation's observations alone
  let sender := jstr (jget d "sender")
  let regKey := jtok (jpath st ["reg", caName, sender, "id"])
  let authentic := (jbool? (jget d "dec")).getD false && regKey != 0 && jtok (jget d "sig") == regKey &&
      (jbool? (jget d "fresh")).getD false
  let orc : List String :=
    (if (replied || !chg.isEmpty) && !authentic then ["acts_only_for_registered_key"] else []) ++
    (if !authentic && !(ret.startsWith "err:") then ["refused_no_change"] else []) ++
    (if flip && (replied || !chg.isEmpty) && (jbool? (jget d "same")) != some true then ["flip_identical"] else []) ++
    (if replied && jtok (jpath obs ["reply", "sig"]) != jtok (jpath st ["ids", caName]) then ["reply_signed_by_current_id"] else []) ++
    (if replied && (jstr (jpath obs ["reply", "sender"]) != caName || jstr (jpath obs ["reply", "recip"]) != sender) then ["reply_addressed"] else []) ++
    (if !(chgOutside chg [s!"cas:{caName}", s!"objects:{caName}.json", "log:cas", "log:pubd_objects",
          s!"status:{caName}/children-{sender}.json", s!"pub:{caName}", s!"status:{caName}/repos-main.json"]).isEmpty
      then ["scope_of_accepted"] else []) ++
    -- "obtain … certificates … within its entitlement": every certificate in the reply that the CA did not
    -- hold before the request (issued while processing it, e.g. by the automatic un-suspension) carries
    -- only resources the sender is entitled to
    (let rp := jpath obs ["reply", "pl"]
     let ent := jatoms (jpath st ["reg", caName, sender, "res"])
     let beyond (r : Json) : Bool := !((jatoms r).all fun x => ent.contains x)
     if !replied then [] else
     if jstr (jget rp "t") == "listresp" then
       if (jarr (jget rp "classes")).any fun c => (jarr (jget c "certs")).any fun ce =>
            match jarr ce with
            | [_, r, f] => (jbool? f).getD false && beyond r
            | _ => false
       then ["scope_within_entitlement"] else []
     else if jstr (jget rp "t") == "issueresp" then
       if (jbool? (jget rp "fresh")).getD false && beyond (jget rp "res") then ["scope_within_entitlement"] else []
     else []) ++
    -- the records of the other children of this CA, and all other CAs' registrations, are untouched
    (let st' := jget obs "st"
     if jisNull st' then [] else
     let others (x : Json) := (jfields (jpath x ["reg", caName])).filter (·.1 != sender)
     let rest (x : Json) := (jfields (jget x "reg")).filter (·.1 != caName)
     if others st != others st' || rest st != rest st' || jget st "ids" != jget st' "ids"
     then ["scope_of_accepted"] else [])
  let a := if orc.isEmpty then a else { a with fails := a.fails ++ ["ORACLE " ++ " ".intercalate orc] }
  -- model vs implementation
  let tagBase := if flip then "flip6492" else "send6492"
  -- what the automatic un-suspension does (model branch): the fates of the sender's keys
  let unsusp : String := match sg with
    | some g =>
      match lookup ca.children g.body.sender with
      | some c =>
        if caName != "ta" && c.suspended && g.signer == c.idKey && g.fresh then
          match unsuspend ca g.body.sender c with
          | none => "+unsuspend-fails"
          | some _ =>
            let fs := sortStr ((c.inUse.map fun ku => match fate ca c ku with
              | .keep => "keep" | .reissue _ _ => "reissue" | .drop => "drop" | .fail => "fail").eraseDups)
            "+unsuspend:" ++ (if fs.isEmpty then "nokeys" else ",".intercalate fs)
        else ""
      | none => ""
    | none => ""
  -- the state after the request: the model's against the observed one (the sender's issued and
  -- suspended certificates, its keys and its suspension flag; every other child's as well)
  let stateCheck (a : Acc) : Acc :=
    if caName == "ta" || !(ret.startsWith "reply:" || ret.startsWith "err:") then a else
    let st' := jget obs "st"
    let after := caProj (caOf (if jisNull st' then st else st') caName)
    let mine := caProj ca'
    if mine == after then a
    else
      a.fail s!"state after the request differs: {projDiff mine after}"
  match out with
  | .refused r =>
    let a := a.tag s!"{tagBase}/refused-{refusalTag r}{unsusp}{if ca' != ca then "-changed" else ""}"
    let a := if replied then a.fail s!"model refuses ({refusalTag r}), implementation replied {ret}" else a
    let a := if r != .processing && !chg.isEmpty then a.fail s!"refused request changed {chg}" else a
    if replied then a else stateCheck a
  | .replied m =>
    let kind := match m.body.payload with
      | .listResponse _ => "listresp" | .issueResponse _ _ _ => "issueresp"
      | .revokeResponse _ _ => "revokeresp" | _ => "other"
    let a := a.tag s!"{tagBase}/{kind}{unsusp}{if ca' != ca then "-changed" else ""}"
    let a := if ret != s!"reply:{kind}" then a.fail s!"model replies {kind}, implementation {ret}" else a
    -- reply content
    let rp := jpath obs ["reply", "pl"]
    let a := match m.body.payload with
    | .listResponse cls =>
      -- per class: entitlement, and every listed certificate with the resources it carries
      let mine := sortBy (fun x y => x.1 < y.1) (cls.map fun (c, r, kcs) =>
        (c, sortNat r, sortBy (fun x y => x.1 < y.1) (kcs.map fun (k, cr) => (k, sortNat cr))))
      let theirs := sortBy (fun x y => x.1 < y.1) ((jarr (jget rp "classes")).map fun c =>
        (jstr (jget c "cls"), sortNat (jatoms (jget c "res")),
          sortBy (fun x y => x.1 < y.1) ((jarr (jget c "certs")).filterMap fun ce =>
            match jarr ce with
            | k :: r :: _ => some (jtok k, sortNat (jatoms r))
            | _ => none)))
      if replied && mine != theirs then a.fail s!"list response differs: model {repr mine} implementation {repr theirs}" else a
    | .issueResponse _ k r =>
      if replied && (jtok (jget rp "key") != k || sortNat (jatoms (jget rp "res")) != sortNat r)
      then a.fail "issue response differs" else a
    | .revokeResponse _ k => if replied && jtok (jget rp "key") != k then a.fail "revoke response differs" else a
    | _ => a
    if ret != s!"reply:{kind}" then a else stateCheck a

open KM.Proto in
def step8181 (a : Acc) (publisher : String) (flip : Bool) (obs : Json) : Acc :=
  let st := a.st.cms
  let d := jget obs "desc"
  let ret := jstr (jget obs "ret")
  let chg := (jarr (jget obs "chg")).map jstr
  let replied := ret.startsWith "reply:"
  if ret == "noslot" then a.tag "send8181/noslot" else
  let srv := serverOf st
  let base := jstr (jpath st ["pubs", publisher, "base"])
  let sg := signed8181 d base
  let (srv', out) := rfc8181 (fun (_ : Unit) => sg) srv publisher ()
  let regKey := jtok (jpath st ["pubs", publisher, "id"])
  let authentic := (jbool? (jget d "dec")).getD false && regKey != 0 && jtok (jget d "sig") == regKey &&
      (jbool? (jget d "fresh")).getD false
  let orc : List String :=
    (if (replied || !chg.isEmpty) && !authentic then ["acts_only_for_registered_key"] else []) ++
    (if !authentic && !(ret.startsWith "err:") then ["refused_no_change"] else []) ++
    (if flip && (replied || !chg.isEmpty) && (jbool? (jget d "same")) != some true then ["flip_identical"] else []) ++
    (if replied && jtok (jpath obs ["reply", "sig"]) != jtok (jget st "srv") then ["reply_signed_by_current_id"] else []) ++
    (if !(chgOutside chg [s!"pub:{publisher}", "log:pubd_objects"]).isEmpty then ["scope_of_accepted"] else [])
  let a := if orc.isEmpty then a else { a with fails := a.fails ++ ["ORACLE " ++ " ".intercalate orc] }
  let tagBase := if flip then "flip8181" else "send8181"
  match out with
  | .refused r =>
    let a := a.tag s!"{tagBase}/refused-{refusalTag r}"
    let a := if replied then a.fail s!"model refuses ({refusalTag r}), implementation replied {ret}" else a
    if !chg.isEmpty then a.fail s!"refused request changed {chg}" else a
  | .replied m =>
    let kind := match m.body with
      | .listReply _ => "listreply" | .success => "success" | .errorReply c => s!"error:{c}" | _ => "other"
    let a := a.tag s!"{tagBase}/{kind}"
    let a := if ret != s!"reply:{kind}" then a.fail s!"model replies {kind}, implementation {ret}" else a
    let a := if srv' == srv && !chg.isEmpty then a.fail s!"model: no change, implementation changed {chg}" else a
    match m.body with
    | .listReply fs =>
      let mine := sortBy ltSN (fs.map fun f => ("/".intercalate f.1, f.2))
      let theirs := sortBy ltSN ((jarr (jpath obs ["reply", "pl", "files"])).filterMap fun f =>
        match jarr f with | [u, h] => some ("/".intercalate (uriOf base (jstr u)), jtok h) | _ => none)
      if replied && mine != theirs then a.fail "list reply differs" else a
    | .success =>
      -- the new file set of the publisher
      match jget obs "st", KM.Proto.lookup srv'.publishers publisher with
      | .null, _ => a
      | st', some p' =>
        let mine := sortBy ltSN (p'.files.map fun f => ("/".intercalate f.1, f.2))
        let theirs := sortBy ltSN ((jarr (jpath st' ["pubs", publisher, "files"])).filterMap fun f =>
          match jarr f with | [u, h] => some ("/".intercalate (uriOf base (jstr u)), jtok h) | _ => none)
        if mine != theirs then a.fail "published files differ from the model's" else a
      | _, none => a
    | _ => a

/-! ### one line -/

def taNumbersOracle (st : St) (t : Json) : List String :=
  match st.lastNum, jnat? (jget t "num") with
  | some a, some b => if b < a then ["ta_numbers_increase"] else []
  | _, _ => []

def step (st : St) (op : List String) (obs : Json) : St × String :=
  let ret := jstr (jget obs "ret")
  let cmds := jarr (jget obs "cmds")
  let ta := jget obs "ta"
  let hasTa := !(jisNull ta)
  let a : Acc := { st := st }
  let opk := op.headD "?"
  -- ---------------- trust anchor part
  let a := if !hasTa then a else
    let pid := jtok (jget ta "pid")
    let ovr := (kv? op "ovr").bind String.toNat?
    -- `GiveChildResponse` on its own: the model's `process` says whether the proxy hands a response over
    let a := match op, a.st.proxy with
      | "tagive" :: child :: _, some p =>
        let k := jtok (jget obs "key")
        let expect := match KM.Ta.process p (.giveChildResponse child k) with
          | .ok _ => "ok" | .error _ => "refused"
        let a := a.tag s!"tagive/{expect}"
        if ret == expect then a else a.fail s!"tagive: model {expect}, implementation {ret}"
      | _, _ => a
    -- glue prediction for a crafted child request, on the state before
    let a := match op, a.st.proxy with
      | "tareq" :: child :: kind :: _, some p =>
        let rq : Req := { kind := reqKind kind, key := jtok (jget obs "key"),
                          cls := if (kv? op "cls").isSome then 1 else 0,
                          limit := ((kv? op "lim").map fun s => (s.splitOn ",").filterMap String.toNat?).getD [] }
        let (_, rep) := taSlowRequest p child rq
        let expect := match rep with
          | .response (.issued _) => "reply:issueresp" | .response .revoked => "reply:revokeresp"
          | .response .error => "reply:np:2001" | .notPerformed c => s!"reply:np:{c}"
          | .error e => "err:" ++ errName e
        let a := a.tag ("tareq/" ++ match rep with
          | .response _ => "response-given" | .notPerformed c => s!"{c}" | .error e => errTag e)
        if expect == ret || (expect == "err:*" && ret.startsWith "err:") then a
        else a.fail s!"child request: model {expect}, implementation {ret}"
      | _, _ => a
    -- every stored command of the proxy, then of the embedded signer
    let a := cmds.foldl (fun a c =>
      let e := jstr (jget c "e")
      if e == "ta_proxy:ta" then stepProxyCmd a c pid
      else if e == "ta_signer:ta" then
        match jstr (jget c "k") with
        | "init" =>
          let sj := jpath obs ["signers", "A"]
          let sg := Signer.init (jtok (jget sj "id")) (jtok (jget sj "pk")) (jtok (jget sj "tak")) none
          { a with st := { a.st with signers := sput a.st.signers "A" sg } }
        | "sign" =>
          -- the command of this very op (not the start-up exchange that the first line also shows)
          let mine := opk == "sign" && op.getD 1 "" == "A" && ret != "noslot" &&
            (jnat (jget c "v")) == ((cmds.filter fun x => jstr (jget x "e") == "ta_signer:ta").map
              fun x => jnat (jget x "v")).foldl max 0
          stepSign a "A" (jget c "m") (if mine then ovr else none) (jstr (jget c "r") == "success")
            (if mine then jget obs "out" else Json.null)
        | _ => a
      else a) a
    -- operations on signers the command log of instance A does not show
    let a := match op with
      | "reinit" :: name :: _ =>
        if ret == "ok" then
          let sj := jpath obs ["signers", name]
          let num := (kv? op "num").bind String.toNat?
          let a := a.tag s!"reinit/{op.getD 2 ""}{if num.isSome then "-num" else ""}"
          let sg := Signer.init (jtok (jget sj "id")) pid (jtok (jget sj "tak")) num
          { a with st := { a.st with signers := sput a.st.signers name sg } }
        else a.tag "reinit/skipped"
      | "sign" :: name :: _ =>
        if name == "A" then (if ret == "noslot" then a.tag "sign/noslot" else a)
        else if name == "B" then
          -- another pair's signer: only accept/refuse is predicted, from its associated proxy key
          let pk := jtok (jpath obs ["signers", "B", "pk"])
          let m := reqMsg (jget obs "m")
          if ret == "noslot" then a.tag "sign/noslot"
          else
            let a := a.tag (if m.validFor pk then "signB/own-proxy" else "signB/foreign-refused")
            if !(m.validFor pk) && ret == "ok" then a.fail "signer B processed a request not signed by its proxy" else a
        else if ret == "noslot" || ret == "nosigner" then a.tag s!"sign/{ret}"
        else stepSign a name (jget obs "m") ovr (ret == "ok") (jget obs "out")
      | "mkreq" :: "B" :: _ | "getreq" :: "B" :: _ => a.tag "other-pair"
      | "resp" :: _ :: "B" :: _ => a.tag "resp/to-other-proxy"
      | "getreq" :: _ =>
        match a.st.proxy with
        | some p =>
          match getSignerRequest p with
          | .ok m =>
            let o := reqMsg (jget obs "out")
            let a := a.tag (if m.clear.entries.isEmpty then "getreq/empty" else "getreq/with-requests")
            if ret != "ok" then a.fail "getreq: model has an open request, implementation refused"
            else if o.signer != m.signer || o.clear.nonce != m.clear.nonce ||
                sortBy ltSN (o.clear.entries.map fun (e : CK × Req) => e.1) !=
                  sortBy ltSN (m.clear.entries.map fun (e : CK × Req) => e.1)
            then a.fail "getreq: signed request differs from the model's" else a
          | .error _ =>
            let a := a.tag "getreq/no-request"
            if ret != "err:TaProxyHasNoRequest" then a.fail s!"getreq: model refuses, implementation {ret}" else a
        | none => a
      | "mut" :: _ :: how :: _ =>
        let a := a.tag s!"mut/{(how.splitOn "=").headD ""}{if ret == "ok" then "" else "-skipped"}"
        if !(jarr (jget obs "chg")).isEmpty then a.fail "building a message changed the state" else a
      | "resp" :: _ => if ret == "noslot" then a.tag "resp/noslot" else a
      | _ => a
    -- direct operations: the error kind
    let a := match opk with
      | "mkreq" | "resp" | "sigadd" | "sigupdate" =>
        if op.getD (if opk == "resp" then 2 else 1) "" == "B" || ret == "noslot" || ret == "nosigner" then a else
        -- the last proxy command of this line decides
        match (cmds.filter fun c => jstr (jget c "e") == "ta_proxy:ta").getLast? with
        | some c => if (jstr (jget c "r") == "success") != (ret == "ok") then
            a.fail s!"return value {ret} does not match the stored command result" else a
        | none => a
      | _ => a
    -- what was really signed, and deliveries of things that were not (Dolev-Yao admissibility)
    let outJ := jget obs "out"
    let a := match op with
      | "mkreq" :: rest | "getreq" :: rest =>
        if ret == "ok" && rest.headD "" != "B" && !(jisNull outJ) then
          { a with st := { a.st with madeReq := (jtok (jget outJ "nonce"), entries (jget outJ "ent")) :: a.st.madeReq } }
        else a
      | "sign" :: _ =>
        let m := jget obs "m"
        let forged := jtok (jget m "sig") == pid && (jbool? (jget m "same")) == some true &&
          !(a.st.madeReq.contains (jtok (jget m "nonce"), entries (jget m "ent")))
        let a : Acc := if forged && !(jisNull m) then
            let a1 := a.tag "x/forged-inadmissible"
            { a1 with st := { a1.st with tainted := true } }
          else a
        if ret == "ok" && !(jisNull outJ) then
          { a with st := { a.st with madeResp :=
              (jtok (jget outJ "sig"), jtok (jget outJ "nonce"), jnat (jget outJ "num"), entries (jget outJ "ent")) :: a.st.madeResp } }
        else a
      | "resp" :: _ =>
        let m := jget obs "m"
        let honestKeys := (a.st.signers.map fun (x : String × Signer) => x.2.idKey) ++ [jtok (jpath obs ["signers", "B", "id"])]
        let forged := !(jisNull m) && honestKeys.contains (jtok (jget m "sig")) && jtok (jget m "sig") != 0 &&
          (jbool? (jget m "same")) == some true &&
          !(a.st.madeResp.contains (jtok (jget m "sig"), jtok (jget m "nonce"), jnat (jget m "num"), entries (jget m "ent")))
        if forged then
          let a1 := a.tag "x/forged-inadmissible"
          { a1 with st := { a1.st with tainted := true } }
        else a
      | _ => a
    -- model state = observed state
    let a := match a.st.proxy with
      | some p =>
        if proxyProjOfModel p == proxyProjOfObs ta then a
        else a.fail s!"proxy state: model {repr (proxyProjOfModel p)} implementation {repr (proxyProjOfObs ta)}"
      | none => a
    let a := a.st.signers.foldl (fun (a : Acc) ((n, s) : String × Signer) =>
      if n == "B" then a else
      let sj := jpath obs ["signers", n]
      if jisNull sj then a
      else if signerProjOfModel s == signerProjOfObs sj then a
      else a.fail s!"signer {n}: model {repr (signerProjOfModel s)} implementation {repr (signerProjOfObs sj)}") a
    -- oracle
    -- C14/C15: the manifest and the CRL the TA has in the repository carry the same number (both are built from the
    -- one revision of `TrustAnchorObjects`), whatever number override the signer was given
    let mftCrl := match jget obs "mft", jget obs "crl" with
      | .null, _ | _, .null => []
      | m, c => if jstr m == jstr c then [] else ["ta_mft_crl_numbers_agree"]
    let orc := if a.st.tainted then [] else oracleExactlyOnce a.st ta ++ taNumbersOracle a.st ta ++ mftCrl
    let a := if orc.isEmpty then a else { a with fails := a.fails ++ ["ORACLE " ++ " ".intercalate orc] }
    { a with st := { a.st with lastNum := jnat? (jget ta "num") } }
  -- ---------------- CMS part
  let a := match op with
    | "send6492" :: ca :: _ => step6492 a ca ((kv? op "flip").isSome) obs
    | "send8181" :: p :: _ => step8181 a p ((kv? op "flip").isSome) obs
    | "mk6492" :: _ | "mk8181" :: _ =>
      let a := a.tag s!"{opk}/{if ret == "ok" then "built" else "skipped"}"
      if !(jarr (jget obs "chg")).isEmpty then a.fail "building a message changed the state" else a
    | "updateid" :: ca :: _ =>
      if jisNull (jget obs "st") || jisNull a.st.cms then a else
      let old := jtok (jpath a.st.cms ["ids", ca])
      let new := jtok (jpath obs ["st", "ids", ca])
      let a := a.tag "updateid/new-key"
      let a := if ret == "ok" && new == old then a.fail "updateid: ID key unchanged" else a
      if jget (jget obs "st") "reg" != jget a.st.cms "reg" then a.fail "updateid changed a registration" else a
    | "childid" :: p :: c :: _ =>
      if jisNull (jget obs "st") || jisNull a.st.cms then a else
      let cur := jtok (jpath a.st.cms ["ids", c])
      let was := jtok (jpath a.st.cms ["reg", p, c, "id"])
      let now := jtok (jpath obs ["st", "reg", p, c, "id"])
      let a := a.tag (if cur == was then "childid/same" else "childid/replaced")
      if ret == "ok" && now != cur then a.fail "childid: registered key is not the child's current key" else a
    -- operator actions on a child: suspension, entitlement, manual un-suspension (model: `suspendChild`,
    -- `updateChildResources`, `unsuspend`) – the state they lead to is compared as after a request
    | "childsuspend" :: p :: c :: _ | "childres" :: p :: c :: _ | "childunsuspend" :: p :: c :: _ =>
      let st' := jget obs "st"
      if jisNull st' || jisNull a.st.cms || !(jkeys (jget a.st.cms "ids")).contains p then a else
      let ca := caOf a.st.cms p
      let after := caOf st' p
      match KM.Proto.lookup ca.children c with
      | none => a.tag s!"{opk}/no-such-child"
      | some rec =>
        let (pred, tag) : Option KM.Proto.Ca × String :=
          if opk == "childsuspend" then
            let exp (k : Nat) : Bool := after.suspendedCerts.any fun s => s.key == k && s.expiring
            let ca' := ca.suspendChild c exp
            (some ca', if rec.suspended then "already-suspended" else if ca' == ca then "nothing-to-suspend" else "moved")
          else if opk == "childres" then
            (some (ca.updateChildResources c (((op.getD 3 "").splitOn ",").filterMap String.toNat?)),
              if rec.suspended then "while-suspended" else "active")
          else if !rec.suspended then (some ca, "not-suspended")
          else match KM.Proto.unsuspend ca c rec with
            | none => (none, "fails")
            | some (ca', _) => (some ca', "done")
        let a := a.tag s!"{opk}/{tag}"
        match pred with
        | none => if ret == "ok" then a.fail s!"{opk}: model fails, implementation succeeded" else a
        | some ca' =>
          if ret != "ok" then (if opk == "childres" then a else a.fail s!"{opk}: model succeeds, implementation {ret}")
          else if caProj ca' == caProj after then a
          else
            a.fail s!"{opk}: state differs: {projDiff (caProj ca') (caProj after)}"
    | "pubreadd" :: c :: _ =>
      if jisNull (jget obs "st") || jisNull a.st.cms then a else
      let cur := jtok (jpath obs ["st", "ids", c])
      let now := jtok (jpath obs ["st", "pubs", c, "id"])
      let a := a.tag "pubreadd/registered"
      if ret == "ok" && now != cur then a.fail "pubreadd: registered key is not the current key" else a
    | _ => a
  let a := if jisNull (jget obs "st") then a else { a with st := { a.st with cms := jget obs "st" } }
  -- ---------------- verdict
  let tags := if a.tags.isEmpty then [s!"{opk}/{if ret.startsWith "err" then "err" else "pass"}"] else a.tags
  let orc := a.fails.filter (·.startsWith "ORACLE ")
  let mdl := a.fails.filter (fun f => !f.startsWith "ORACLE ")
  let st' := a.st
  if !orc.isEmpty then
    (st', "FAIL oracle " ++ " ".intercalate (orc.map fun s => (s.drop 7).toString) ++
      (if mdl.isEmpty then "" else " ; MODEL " ++ " | ".intercalate mdl))
  else if !mdl.isEmpty then
    if st.synced then ({ st' with synced := false }, "FAIL model " ++ " | ".intercalate mdl)
    else (st', "skip unsynced")
  else if !st.synced then (st', "skip unsynced")
  else
    let opk' := if (kv? op "flip").isSome then "flip" ++ (opk.drop 4).toString else opk
    (st', "ok " ++ opk' ++ ":" ++ "+".intercalate ((tags.map fun t => ((t.splitOn "/").drop 1 |> "/".intercalate)).eraseDups))

/-- Verdicts are one line each. -/
def oneLine (s : String) : String :=
  " ".intercalate ((s.splitOn "\n").map fun l => (l.dropWhile (· == ' ')).toString)

def step1 (st : St) (op : List String) (obs : Json) : St × String :=
  let ret := jstr (jget obs "ret")
  if ret.startsWith "PANIC" then (st, oneLine s!"FAIL oracle no_panic {ret}")
  else if ret == "dead" then (st, "ok " ++ op.headD "?" ++ ":trivial-after-panic")
  else
    let (st', v) := step st op obs
    (st', oneLine v)

def main : IO Unit := do
  let stdin ← IO.getStdin
  jloop stdin ({} : St) step1 {}

end KM.Drv.Proto
