/- Driver for stream `conc` (C18): judges one `concrun` line per concurrent run. -/
import KrillModel.Locks.Model
import KrillModel.Drivers.Json
namespace KM.Drv.Conc
open KM.Drv KM.Locks Lean

def parseNs : String → Option Ns
  | "cas" => some .cas | "ta_proxy" => some .taProxy | "ta_signer" => some .taSigner
  | "pubd" => some .pubd | "pubd_objects" => some .pubdObjects | "status" => some .status
  | "properties" => some .properties | "ca_objects" => some .caObjects | "tasks" => some .tasks
  | "signers" => some .signers | "keys" => some .keys
  | _ => none

/-- `kvr:<ns>` / `kv:<ns>` / `kv:<ns>/<scope>` / `pubd-update` / `rsync`. -/
def parseLock (name : String) : Option Lock :=
  if name == "pubd-update" then some .pubdUpdate
  else if name == "rsync" then some .rsync
  else if name == "history-cache" then some .historyCache
  else if name == "status-cache" then some .statusCache
  else if name == "signer-pending" then some .signerPending
  else if name == "signer-handle" then some .signerHandle
  else match name.splitOn ":" with
    | [kind, rest] =>
      if kind != "kv" && kind != "kvr" then none else
      match rest.splitOn "/" with
      | [ns] => (parseNs ns).map .root
      | ns :: _ => if kind == "kv" then (parseNs ns).map .scope else none
      | [] => none
    | _ => none

def edgeClass (a b : Lock) : String := s!"{repr a}->{repr b}".replace "KM.Locks." ""

structure St where
  dummy : Unit := ()

def step (st : St) (ws : List String) (j : Json) : St × String :=
  match ws with
  | "concrun" :: n :: _ =>
    let edges := (jarr (jget j "edges")).map fun e => match jarr e with
      | [a, b] => (jstr a, jstr b)
      | _ => ("?", "?")
    -- correspondence: every lock the code takes is known to the model, every nesting it
    -- shows respects the ranking the deadlock theorem assumes
    let unknown := edges.filter fun (a, b) => (parseLock a).isNone || (parseLock b).isNone
    let bad := edges.filter fun (a, b) => match parseLock a, parseLock b with
      | some x, some y => !(edgeOk x y)
      | _, _ => false
    if !unknown.isEmpty then
      (st, s!"FAIL model lock not in the model's ranking: {unknown.take 3}")
    else if !bad.isEmpty then
      (st, s!"FAIL oracle lock_order_inversion {(bad.take 3).map fun (a, b) => a ++ "->" ++ b}")
    else
      let b (k : String) := (jbool? (jget j k)).getD false
      let orc : List String :=
        (if b "sched_stopped" then [] else ["scheduler_stuck"]) ++
        -- the locks the serialisation theorems take for granted exclude: no thread got an exclusive lock while
        -- another one was inside (lockdep `Held` intervals lie strictly inside the real critical sections)
        (if (jarr (jget j "lock_overlaps")).isEmpty then [] else ["exclusive_lock_excludes"]) ++
        (if b "rets_same" then [] else
          -- one predicate per class of differing reply: (op kind, reply under concurrency)
          ((jarr (jget j "ret_diffs")).map fun d => match jarr d with
            | [op, r, _] => s!"answered_as_serial:{jstr op}:{jstr r}"
            | _ => "answered_as_serial:?").eraseDups) ++
        (if b "state_same" then [] else ["state_equals_serial"]) ++
        (if (jarr (jget j "rp_problems")).isEmpty then [] else ["rp_valid"]) ++
        -- RRDP files: snapshots reach the disk in serial order, and once idle the notification
        -- on disk is at the publication server's serial (C11 `serial_plus_one` under concurrency)
        (let ws := (jarr (jget j "written_serials")).map jnat
         if (ws.zip (ws.drop 1)).all (fun (a, b) => a ≤ b) then [] else ["rrdp_serials_monotone"]) ++
        (if b "staged_pending" || jget j "disk_serial" == jget j "content_serial_after_idle_update"
         then [] else ["rrdp_files_current"]) ++
        -- no lost wake-up: when everything is idle, changes that are still staged (the idle
        -- update moved the serial) have an RRDP update task waiting for them (C09
        -- `publication_schedules_rrdp_update` under concurrency: the task is scheduled AFTER the change)
        (if jget j "content_serial" == jget j "content_serial_after_idle_update" || b "rrdp_task_present"
            || (jget j "rrdp_task_present").isNull
         then [] else ["staged_changes_have_a_task"])
      if orc.isEmpty then
        let classes := (edges.filterMap fun (a, b) => match parseLock a, parseLock b with
          | some x, some y => some (edgeClass x y) | _, _ => none).eraseDups
        (st, s!"ok concrun:threads{n}/edges{classes.length}")
      else (st, "FAIL oracle " ++ " ".intercalate orc)
  | _ => (st, s!"ok trivial:{ws.headD "?"}")

def main : IO Unit := do
  let stdin ← IO.getStdin
  jloop stdin ({} : St) step {}

end KM.Drv.Conc
