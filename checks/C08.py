"""C08 — A crash or failed write at any instant is recoverable without loss or divergence."""
import concurrent.futures, json, random, re
import vlib

BASE = """ca a
child ta a 1,2,3,4
pump
ca b
child a b 2,3
pump
roa a +1:v4:1.0/24
roa b +2:v4:2.0/24
pump
"""

# (name, config line or "", extra prefix ops, target op)
TARGETS = [
    ("roa", "", "", "roa a +4:v4:4.0/24 -1:v4:1.0/24"),
    ("aspa", "", "", "aspa a +1:65000"),
    ("bgpsec", "", "", "bgpsec a +2"),
    ("shrink", "", "", "childres a b 3"),
    ("grow", "", "", "childres a b 2,3,4"),
    ("suspend", "", "", "childsuspend a b"),
    ("unsuspend", "", "childsuspend a b\npump\n", "childunsuspend a b"),
    ("childrm", "", "", "childrm a b"),
    ("rollinit", "", "", "rollinit b"),
    ("rollactivate", "", "rollinit b\npump\n", "rollactivate b"),
    ("republish", "", "", "republish force"),
    ("cainit", "", "", "cainit c"),
    ("cadelete", "", "", "cadelete b"),
    ("updateid", "", "", "updateid b"),
    ("syncshrunk", "", "childres a b 3\n", "sync b a"),
    ("reposync", "", "", "reposync a"),
    ("renew", "config roa_weeks=52 roa_reissue=60\n", "", "task renew"),
    ("parentrm", "", "", "parentrm b a"),
    # the admin removes a publisher at the publication server: two stores (access aggregate, content log)
    ("pubrm", "", "", "pubrm b"),
    # the snapshot task (UpdateSnapshots, at start-up and every 24 h): every aggregate store rewrites snapshot.json, the
    # publication server's write-ahead log store replaces its change sets by a new snapshot
    ("snapshots", "", "", "task snapshots"),
]
QUICK_ALWAYS = ["roa", "rollactivate", "cainit", "pubrm", "snapshots"]
# single failed write while the aggregate cache lags one command behind: `<op> ;; <earlier op>` runs the
# earlier (accepted) command right before the operation with no read in between (domain kvcold)
STALE_TARGETS = [
    ("roa", "", "", "roa a +4:v4:4.0/24 -1:v4:1.0/24 ;; aspa a +2:65000"),
    ("aspa", "", "", "aspa a +1:65000 ;; roa a +3:v4:3.0/24"),
    ("shrink", "", "", "childres a b 3 ;; roa a +4:v4:4.0/24"),
    ("rollinit", "", "", "rollinit b ;; roa b +3:v4:3.0/24"),
    ("suspend", "", "", "childsuspend a b ;; aspa a +1:65000"),
]
# file-system cuts (the RRDP and rsync writers of the publication server): target ops whose own
# execution or whose tasks write the repository
FS_TARGETS = [
    ("fsreposync", "", "roa a +4:v4:4.0/24 -1:v4:1.0/24\n", "reposync a"),
    ("fsroa", "", "", "roa b +3:v4:3.0/24"),
    ("fscadelete", "", "", "cadelete b"),
    ("fsrepublish", "", "", "republish force"),
    ("fsrollactivate", "", "rollinit b\npump\n", "rollactivate b"),
]

RULE = ("stream fault: for each (state, operation) scenario every cut point n = 0..#mutations-1 of the operation "
        "plus the tasks it triggers is enumerated on a forked copy of the DISK data directory: the n-th key-value "
        "mutation (domain kv) or file-system mutation of the repository writers (domain fs) and all later ones fail (crash) "
        "or only the n-th fails (once); then restart on the same directory, "
        "load every entity, pump tasks, re-submit the request unless it was acknowledged, compare API views + repository "
        "with the fault-free twin; distinct_nontrivial = distinct (op kind, mode, phase of the cut) classes judged")


def scenario(t, mode, domain, which):
    name, cfg, extra, op = t
    return f"case {name}-{mode}-{domain}-disk\n{cfg}{BASE}{extra}fault {mode} {domain} {which} :: {op}\n"


def run_one(ctx, idx, text):
    f = ctx.work / f"fault-{idx}.ops"
    tr = ctx.work / f"fault-{idx}.trace"
    f.write_text(text)
    r = vlib.run([vlib.hbin("fault"), "--ops", str(f), "--out", str(tr), "--seed", str(ctx.seed)], timeout=3 * 3600)
    return (r.returncode, r.stdout[-2000:], f, tr)


def judge(ctx, jobs):
    found = False
    known = vlib.load_known()
    for rc, tail, f, tr in jobs:
        if rc != 0:
            ctx.log(f"fault harness failed on {f.name}: {tail}")
            vlib.report_violation(ctx, "harness-crash", {"ops": f.read_text().splitlines(), "output": tail},
                                  signature="crash:fault")
            found = True
            continue
        vf = ctx.work / (tr.name + ".verdict")
        if not vlib.run_model(ctx, "fault", tr, vf):
            vlib.report_violation(ctx, "model-driver-crash", {"stream": "fault"}, found_input=False)
            continue
        cases = vlib.parse_cases(tr, vf)
        if cases is None:
            vlib.report_violation(ctx, "model-driver-desync", {"stream": "fault"}, found_input=False)
            continue
        vlib.histogram(ctx, cases)
        ctx.traces_validated += sum(1 for c in cases for t, _ in c["ops"] if t.startswith("faultcut"))
        prefix = [l for l in f.read_text().splitlines() if not l.startswith("fault ") and not l.startswith("case ")]
        for c in cases:
            for t, v in c["ops"]:
                if not t.startswith("faultcut"):
                    continue
                if not ctx.samples:
                    obs = json.loads(t.split(" => ", 1)[1])
                    ctx.samples.append({"cut": vlib.strip_obs(t), "muts": obs["muts"], "verdict": v})
                if v.startswith("ok"):
                    continue
                found = True
                w = vlib.strip_obs(t).split()
                mode, domain, n = w[1], w[2], w[3]
                op = " ".join(w[5:])
                kind = w[5]
                if v.startswith("FAIL oracle"):
                    preds = v.split()[2:]
                    unknown = []
                    for p in preds:
                        sig = f"oracle:{p}:{kind}:{mode}"
                        k = vlib.match_known(ctx.pid, sig)
                        if k:
                            if k["id"] not in ctx.known_reported:
                                ctx.known_reported.append(k["id"])
                                print(f"KNOWN-FINDING: property={ctx.pid} {k['what']}", flush=True)
                        else:
                            unknown.append(sig)
                    if not unknown:
                        continue
                    sigs = ",".join(unknown)
                    if sigs in getattr(ctx, "_c08_reported", set()):
                        continue
                    ctx.__dict__.setdefault("_c08_reported", set()).add(sigs)
                    vlib.report_violation(ctx, "implementation-vs-oracle", {
                        "stream": "fault", "harness": "fault", "case": c["id"],
                        "ops": prefix + [f"fault {mode} {domain} {n} :: {op}"],
                        "verdict": v, "signatures": unknown, "observation": json.loads(t.split(" => ", 1)[1]),
                    })
                else:
                    key = "model:" + kind
                    if key in getattr(ctx, "_c08_reported", set()):
                        continue
                    ctx.__dict__.setdefault("_c08_reported", set()).add(key)
                    vlib.report_violation(ctx, "model-vs-implementation", {
                        "stream": "fault", "harness": "fault", "case": c["id"],
                        "ops": prefix + [f"fault {mode} {domain} {n} :: {op}"], "verdict": v,
                    })
    return found


def check(ctx):
    vlib.translate(ctx, [("event_tasks", "EventTasks.lean")])
    vlib.prove(ctx, ["KrillModel.Props.C08", "KrillModel.Props.C10Removal"])
    found = False
    if vlib.build_harness(ctx, ["fault"]):
        rnd = random.Random(ctx.seed)
        if ctx.tier == "quick":
            names = set(QUICK_ALWAYS) | set(rnd.sample([t[0] for t in TARGETS if t[0] not in QUICK_ALWAYS], 2))
            plan = [(t, "crash", "kv", "all" if t[0] in ("roa", "cainit", "pubrm") else "sample8") for t in TARGETS if t[0] in names]
            # a single failed write: two sampled cuts per operation - EVERY cut of the creation of an entity (few writes; the
            # init command is the one write whose failure must leave nothing behind, in memory either)
            plan += [(t, "once", "kv", "all" if t[0] == "cainit" else "sample2") for t in TARGETS if t[0] in names]
            plan += [(FS_TARGETS[0], "crash", "fs", "all"), (rnd.choice(FS_TARGETS[1:]), "crash", "fs", "sample4"),
                     (FS_TARGETS[0], "once", "fs", "sample5"),
                     (STALE_TARGETS[0], "once", "kvcold", "sample8"), (rnd.choice(STALE_TARGETS[1:]), "once", "kvcold", "sample3")]
        else:
            plan = [(t, m, "kv", "all") for t in TARGETS for m in ("crash", "once")]
            plan += [(t, m, "fs", "all") for t in FS_TARGETS for m in ("crash", "once")]
            plan += [(t, "once", "kvcold", "all") for t in STALE_TARGETS]
        texts = [scenario(*p) for p in plan]
        corpus = sorted((vlib.VERIF / "corpus" / "fault").glob("*.ops"))
        texts = [c.read_text() for c in corpus] + texts
        with concurrent.futures.ThreadPoolExecutor(max_workers=12) as ex:
            jobs = list(ex.map(lambda it: run_one(ctx, it[0], it[1]), enumerate(texts)))
        found = judge(ctx, jobs)
    else:
        ctx.failed_obligations.append("harness-build")
    vlib.obligations_broken(ctx, found)
    ctx.assumptions += [
        "every single key-value mutation is atomic (temp file + rename on disk; map insert in memory): torn writes are not modelled",
        "cuts are enumerated on the disk back-end (forked data directory); the memory back-end shares the mutation hooks",
        "domain kvcold: a single failed write hits the operation while the aggregate cache lags one accepted command behind (two commands in "
        "direct succession, no read in between) - the state every view shows afterwards must still be the replay of the log",
        "file-system cuts (the RRDP/rsync writers): crash = every later file-system mutation fails, once = only that one; the tree on disk is "
        "checked at the cut (notification names existing snapshot/deltas with the stated hashes) and after recovery; the full "
        "RRDP contract per cut (delta chains, retention) is C11's",
        "the generic fault model is instantiated per command from the observed mutation sequence (object-set write, task writes, command record)",
    ]
    return vlib.finish(ctx, "proof", RULE)


def replay(ctx, data):
    vlib.build_harness(ctx, ["fault"])
    text = "case replay-disk\n" + "\n".join(data["ops"]) + "\n"
    jobs = [run_one(ctx, 0, text)]
    rc, tail, f, tr = jobs[0]
    vf = ctx.work / (tr.name + ".verdict")
    vlib.run_model(ctx, "fault", tr, vf)
    bad = False
    for t, v in zip([l for l in open(tr) if l.strip()], open(vf)):
        print(vlib.strip_obs(t.strip()), " ## ", v.strip())
        bad |= v.startswith("FAIL")
    if bad:
        print(f"VIOLATION property={ctx.pid} replay={f}")
        return 1
    ctx.cleanup()
    return 0


MANIFEST = {
    "text": "Lean 4 theorems over a generic crash model of one command execution (ordered atomic mutations: published-object set, task "
            "writes, command record): the log after any cut is the old or the complete new one, state all-or-nothing and equal to the "
            "log's verdict, acknowledged never lost, object set and tasks never behind the log, rejected/no-op commands fully atomic, "
            "re-submission converges under listener idempotence; for whole histories (any number of requests, each completed or cut anywhere, "
            "crash or single failed write): log and reloaded state equal those of the fault-free run of exactly the requests whose record "
            "was written, completed requests all survive (hist_log_eq_clean, hist_state_eq_clean, hist_acked_survive); the negation of full three-store atomicity is proved with a witness "
            "(known finding F-C08-1). Tied to the code by enumerating EVERY cut of every scenario operation on the real daemon code "
            "(fault hooks in both storage back-ends), checking the observed mutation order against the model's and evaluating the "
            "theorem predicates (loads, atomic, acked-not-lost, converged vs fault-free twin) on the implementation; file-system cuts of the "
            "repository writers: theorem fs_every_cut_valid (any sequence following commit-what-is-written / remove-what-is-not-named keeps "
            "the notification's snapshot present at every cut), the observed order is checked against that discipline and the files on "
            "disk are checked at every cut",
    "note": "Proof is about the generic mutation-order model; exhaustive cut enumeration per generated operation validates the model "
            "against the code and searches for failing cuts (it is not the proof). Torn single writes and fsync/durability of the OS are outside; "
            " scenarios are a fixed catalogue of operation kinds and states.",
    "technique": "Lean 4 proof (generic crash model, all cuts) + exhaustive fault-injection correspondence",
}
