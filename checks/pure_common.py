"""Shared by checks/C05.py, C16.py, C17.py: the `pure` correspondence stream.

Every line of the stream is an independent case, so there is nothing to shrink: a failing
line *is* the minimal input.  Traces can be large (exhaustive scopes: > 10^6 lines), so trace
and verdict files are walked in lock-step without keeping them in memory.  Every failing line
gets one signature per failed predicate; each distinct signature is reported once (recorded
finding -> KNOWN-FINDING, otherwise VIOLATION with a replay file)."""
import re
from pathlib import Path
import vlib


def kv(words, key):
    for w in words:
        if w.startswith(key + "="):
            return w[len(key) + 1:]
    return None


def panic_location(obs_words):
    """`… panic <crate-relative file>:<line>` -> location; krill's own files without the line
    (a shifted line must not turn a recorded finding into a new one), third-party crates with it
    (their version is pinned)."""
    if "panic" not in obs_words:
        return None
    i = obs_words.index("panic")
    loc = obs_words[i + 1] if i + 1 < len(obs_words) else "?"
    if loc.startswith("krill/"):
        loc = loc.rsplit(":", 1)[0]
    return loc


def signatures(trace_line, verdict, relevant):
    """[(signature, predicate)] for one failing line.  `relevant`: predicate names this property
    is about (None = all); other predicates belong to another property's check."""
    op_s, _, obs_s = trace_line.partition(" => ")
    op = op_s.split()
    obs = obs_s.split()
    kind = op[0] if op else "?"
    if kind in ("dec", "strfn") and len(op) > 1:
        kind = f"{kind}:{op[1]}"
    loc = panic_location(obs)
    tail = f":{loc}" if loc else ""
    if verdict.startswith("FAIL oracle"):
        preds = sorted(set(verdict.split()[2:]))
        out = []
        for p in preds:
            if relevant is None or p in relevant:
                out.append((f"oracle:{p}:{kind}{tail}", p))
        return out
    if verdict.startswith("FAIL model"):
        # the line may carry the oracle's verdict on the implementation's output after "ORACLE"
        out = [(f"model:{kind}{tail}", "model")]
        if " ORACLE " in verdict:
            for p in sorted(set(verdict.rsplit(" ORACLE ", 1)[1].split())):
                if relevant is None or p in relevant:
                    out.append((f"oracle:{p}:{kind}{tail}", p))
        return out
    if verdict.startswith("bad-op"):
        return [(f"badop:{kind}", "bad-op")]
    return []


def walk(trace_path, verdict_path):
    """Yields (case_id, trace_line, verdict) for every op line."""
    case = "anon"
    with open(trace_path) as ft, open(verdict_path) as fv:
        for t in ft:
            t = t.rstrip("\n")
            if not t.strip() or t.startswith("#"):
                continue
            v = fv.readline()
            if not v:
                raise RuntimeError("verdict file shorter than trace")
            v = v.rstrip("\n")
            if t.startswith("case "):
                case = t[5:]
                continue
            yield case, t, v
        if fv.readline():
            raise RuntimeError("verdict file longer than trace")


def run_pure(ctx, set_name, n, relevant, extra_kinds=()):
    """Corpus + generated cases of one set.  Returns True if a failing input was found that is
    not a recorded finding (so that broken proof obligations are still reported when the only
    failing inputs are the recorded ones)."""
    found = False
    violations_before = len(ctx.violations)
    runs = []
    cdir = vlib.VERIF / "corpus" / f"pure-{set_name}"
    if cdir.exists():
        for f in sorted(cdir.glob("*.ops")):
            tr = ctx.work / f"corpus-{f.stem}.trace"
            r = vlib.run([vlib.hbin("pure"), "--ops", str(f), "--out", str(tr)], timeout=3600)
            if r.returncode != 0:
                ctx.log(f"harness failed on corpus {f}: {r.stdout[-1500:]}")
                vlib.report_violation(ctx, "harness-crash", {"stream": "pure", "corpus": str(f), "output": r.stdout[-3000:]},
                                      signature="crash:pure:corpus")
                found = True
                continue
            runs.append(tr)
    tr = ctx.work / f"pure-{set_name}.trace"
    import subprocess
    try:
        r = vlib.run([vlib.hbin("pure"), "--seed", str(ctx.seed), "--n", str(n), "--tier", ctx.tier,
                      "--out", str(tr), f"set={set_name}"], timeout=900 if ctx.tier == "quick" else 4 * 3600)
    except subprocess.TimeoutExpired:
        class R: returncode = 1; stdout = "harness timed out (a case does not terminate)"
        r = R()
    if r.returncode != 0:
        ctx.log(f"harness pure failed: {r.stdout[-3000:]}")
        vlib.report_violation(ctx, "harness-crash", {"stream": "pure", "set": set_name, "output": r.stdout[-3000:]},
                              signature="crash:pure")
        found = True
    if tr.exists():
        runs.append(tr)
    seen_sigs = {}
    ignored = {}
    for tr in runs:
        vf = Path(str(tr) + ".verdict")
        if not vlib.run_model(ctx, "pure", tr, vf):
            vlib.report_violation(ctx, "model-driver-crash", {"stream": "pure"}, found_input=False)
            continue
        try:
            for case, t, v in walk(tr, vf):
                ctx.evaluations += 1
                ctx.traces_validated += 1
                if v.startswith("ok "):
                    k = v[3:].strip()
                    ctx.hist[k] = ctx.hist.get(k, 0) + 1
                    if len(ctx.samples) < 6 and (ctx.evaluations % 997 == 1):
                        ctx.samples.append({"stream": "pure", "case": case, "ops": [f"{t[:600]}  ## {v}"]})
                    continue
                sigs = signatures(t, v, relevant)
                if not sigs:
                    # failure of a predicate that is another property's business
                    for p in v.split()[2:]:
                        ignored[p] = ignored.get(p, 0) + 1
                    k = "other-property:" + t.split()[0]
                    ctx.hist[k] = ctx.hist.get(k, 0) + 1
                    continue
                found = True
                for sig, pred in sigs:
                    if sig in seen_sigs:
                        seen_sigs[sig] += 1
                        continue
                    seen_sigs[sig] = 1
                    kind = ("implementation-vs-oracle" if sig.startswith("oracle:")
                            else "model-vs-implementation" if sig.startswith("model:") else "bad-op")
                    vlib.report_violation(ctx, kind, {
                        "stream": "pure", "harness": "pure", "case": case,
                        "ops": [vlib.strip_obs(t)],
                        "trace": [f"{t}  ## {v}"],
                        "verdict": v, "predicate": pred,
                        "replay_cmd": f"./check {ctx.pid} --replay <this file>",
                    }, signature=sig)
        except RuntimeError as e:
            vlib.report_violation(ctx, "model-driver-desync", {"stream": "pure", "error": str(e)}, found_input=False)
    if seen_sigs:
        ctx.notes.append("failing signatures (count): " + ", ".join(f"{k} x{v}" for k, v in sorted(seen_sigs.items())))
    if ignored:
        ctx.notes.append("predicates of other properties that failed on lines of this run (reported by their own checks): "
                         + ", ".join(f"{k} x{v}" for k, v in sorted(ignored.items())))
    return found and len(ctx.violations) > violations_before


def replay(ctx, data, prop_modules):
    vlib.build_harness(ctx, ["pure"])
    vlib.prove(ctx, prop_modules)
    c = vlib.exec_ops(ctx, "pure", "pure", data.get("case", "replay"), data["ops"], "replay")
    if c.get("crash"):
        print("harness crashed:", c["crash"])
        print(f"VIOLATION property={ctx.pid} replay={ctx.work}/replay.ops")
        return 1
    bad = False
    for t, v in c["ops"]:
        print(f"{t}  ## {v}")
        if v.startswith("FAIL") or v.startswith("bad-op"):
            bad = True
    if bad:
        print(f"VIOLATION property={ctx.pid} replay={ctx.work}/replay.ops")
        return 1
    print("replay: no failure")
    ctx.cleanup()
    return 0
