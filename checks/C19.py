"""C19 — Reported parent, repository and child status matches the last exchange."""
import concurrent.futures
import re
from pathlib import Path

import vlib

HARNESS = "status"
STREAM = "sysstatus"

RULE = ("stream status/sysstatus: an in-process krill (embedded TA, embedded publication server, 2-3 CAs, memory and disk "
        "storage) driven op by op - direct exchanges (sync <ca> <parent>, reposync <ca>, remote rfc6492 requests signed with "
        "the child's current identity), the events that make them fail (child removed at the parent, publisher removed at "
        "the server, identity replaced, suspended child calling in, unknown resource class), key rolls, entitlement changes, "
        "removals of parents / children / CAs, the inactivity check, background task runs and restarts (a fresh CaManager on "
        "the same storage; on disk a whole new KrillRuntime takes over) at any point. A case is one sequence; the Lean model "
        "of the status store runs in lock-step on the events derived from the op's result and the OTHER side's state "
        "(parent's child table, server content before/after) and is compared with the key-value store and the public API "
        "after every op; distinct_nontrivial counts distinct (op kind, model branch) pairs")


def sig(case, idx, verdict):
    op = case["ops"][idx][0].split()
    kind = op[0] if op else "?"
    if verdict.startswith("FAIL oracle"):
        preds = ",".join(sorted(set(verdict.split()[2:])))
        return f"oracle:{preds}:{kind}"
    if verdict.startswith("FAIL model"):
        return f"model:{kind}"
    return f"{verdict.split()[0] if verdict.split() else '?'}:{kind}"


def split_known(ctx, traces):
    """Cases whose failures are all recorded findings are reported (KNOWN-FINDING) without the expensive shrinking and
    taken out; a case with any other failure stays in for vlib.judge_traces - unless a recorded finding comes first, in
    which case the other failure is reported here with the unshrunk ops. Returns (filtered trace files, found_any)."""
    out = []
    found = False
    for tr in traces:
        vf = Path(str(tr) + ".pre.verdict")
        if not vlib.run_model(ctx, STREAM, tr, vf):
            out.append(tr)      # let judge_traces report the driver problem
            continue
        cases = vlib.parse_cases(tr, vf)
        if cases is None:
            out.append(tr)
            continue
        keep = []
        for c in cases:
            fails = [(i, v) for i, (t, v) in enumerate(c["ops"]) if v.startswith("FAIL") or v.startswith("bad-op")]
            if not fails:
                keep.append(c)
                continue
            first_known = vlib.match_known(ctx.pid, sig(c, *fails[0])) is not None
            if not first_known:
                keep.append(c)
                continue
            found = True
            vlib.histogram(ctx, [c])
            ctx.traces_validated += 1
            for i, v in fails:
                s = sig(c, i, v)
                kind = "implementation-vs-oracle" if v.startswith("FAIL oracle") else "model-vs-implementation"
                vlib.report_violation(ctx, kind, {
                    "stream": STREAM, "harness": HARNESS, "case": c["id"],
                    "ops": [vlib.strip_obs(t) for t, _ in c["ops"][: i + 1]],
                    "verdict": v[:2000],
                    "replay_cmd": f"./check {ctx.pid} --replay <this file>",
                }, signature=s)
        if len(keep) == len(cases):
            out.append(tr)
        elif keep:
            ft = Path(str(tr) + ".filtered")
            with open(ft, "w") as f:
                for c in keep:
                    f.write(f"case {c['id']}\n")
                    for t, _ in c["ops"]:
                        f.write(t + "\n")
            out.append(ft)
    return out, found


def check(ctx):
    # status_writes: table of every status-store call of manager.rs; pure_fns:C19: the BODIES of the nine status setters of
    # src/api/ca.rs regenerated as Lean definitions, proved equal to the model's setters in Props/C19Src.lean
    vlib.translate(ctx, [("status_writes", "StatusWrites.lean"), ("pure_fns:C19", "PureFnsC19.lean")])
    vlib.prove(ctx, ["KrillModel.Props.C19", "KrillModel.Props.C19Src"])
    found = False
    reported_before = len(ctx.violations)
    if vlib.build_harness(ctx, [HARNESS]):
        n, length = (24, 12) if ctx.tier == "quick" else (720, 22)
        with concurrent.futures.ThreadPoolExecutor(max_workers=2) as ex:
            fc = ex.submit(vlib.corpus_traces, ctx, HARNESS)
            fg = ex.submit(vlib.parallel_traces, ctx, HARNESS, n, length, 12)
            corpus = fc.result()
            generated = fg.result()
        traces = corpus + generated      # hand-written scenarios and minimised past failures first
        traces, found = split_known(ctx, traces)
        found = vlib.judge_traces(ctx, HARNESS, STREAM, traces, sig) or found
        if not corpus and (vlib.VERIF / "corpus" / HARNESS).exists():
            ctx.failed_obligations.append("corpus-did-not-run")
    else:
        ctx.failed_obligations.append("harness-build")
    # a recorded finding is not a failing input for a *new* break of an obligation
    found = len(ctx.violations) > reported_before
    vlib.obligations_broken(ctx, found)
    ctx.assumptions += [
        "error responses are compared by label, never by message; time stamps are inputs of the model (only equalities between them are used)",
        "parents and the publication server live in the same krill (the harness cannot reach a remote one): the signature check of "
        "provisioning requests is exercised through CaManager::rfc6492 with CMS objects signed by the child's current key; the "
        "publication protocol only through the embedded path (a list query of an unknown publisher is answered with the empty list, "
        "the delta is refused) - the remote variant (list refused) is in the model (repoSyncEvents embedded=false) but not tied",
        "ops that run many background tasks (pump, removals): the observed outcome of each exchange is taken as input and the model's "
        "consequences are checked; the published list is always recomputed from the server's own delta",
        "repository migration (deprecated repositories cleaned through the same shadow list) is not exercised",
        "KrillVersion parsing of user agents is modelled for plain major.minor.patch versions only",
    ]
    ctx.notes.append("child_last_request is proved as _partial: requests refused before processing (unknown child, signature does not "
                     "validate against the registered identity) are not recorded - the parent keeps showing the older outcome")
    return vlib.finish(ctx, "proof", RULE)


def replay(ctx, data):
    vlib.build_harness(ctx, [HARNESS])
    vlib.prove(ctx, ["KrillModel.Props.C19"])
    c = vlib.exec_ops(ctx, data.get("harness", HARNESS), data.get("stream", STREAM), data.get("case", "replay-mem"),
                      data["ops"], "replay")
    if c.get("crash"):
        print("harness crashed:", c["crash"])
        print(f"VIOLATION property={ctx.pid} replay={ctx.work}/replay.ops")
        return 1
    bad = False
    for i, (t, v) in enumerate(c["ops"]):
        print(f"{vlib.strip_obs(t)}  ## {v[:600]}")
        if v.startswith("FAIL") or v.startswith("bad-op"):
            s = sig(c, i, v)
            k = vlib.match_known(ctx.pid, s)
            if k:
                print(f"KNOWN-FINDING: property={ctx.pid} {k['what']}")
            else:
                bad = True
    if bad:
        print(f"VIOLATION property={ctx.pid} replay={ctx.work}/replay.ops")
        return 1
    print("replay: no failure (other than recorded findings)")
    ctx.cleanup()
    return 0


MANIFEST = {
    "text": "Lean 4 theorems over a model of the CA status store (cache + key-value store) and of every place manager.rs calls it, "
            "for all histories of exchange outcomes, removals and restarts (induction over event lists): the view of a parent / of "
            "the repository shows exactly the most recent recorded exchange (failure with its error iff it failed; last_success = time "
            "of the last successful one; entitlements = payload of the last successful list query), the parent's view of a child shows "
            "the most recent processed request incl. user agent and cleared suspension marker (partial: requests refused before "
            "processing are not recorded), a restart at any point is invisible (cache = reload of storage is an invariant), removals "
            "delete view and storage entries, and the shadow list of published files equals the server's content at every moment as "
            "long as the server's content only changes through accepted deltas of this CA - with the negation of the unrestricted "
            "statement proved by a decide witness (F-C19-3: publisher removed and added again while an object is dropped => stale "
            "entry for good) and replayed on the implementation; no URI is ever listed twice (full since fix 7b4aa6c7) and last_success "
            "is the time of the last exchange the parent answered positively (full since fix 0cf51f5b), the two former failures kept "
            "as labelled counter-models of the pinned tree. Tied to the code by lock-step differential execution of the model against an in-process "
            "krill (status harness), by evaluating the theorem predicates on the implementation's own observation, and by tables "
            "regenerated from the source on every run (what each status setter writes incl. the three arms of update_published; on "
            "which reply arm manager.rs calls which setter; cache / storage calls of the store) with decide-checked theorems that "
            "they are what the model implements.",
    "note": "Kernel-checked theorems are about the model. The tie is seeded differential execution plus hand-written scenarios for "
            "every refused-exchange kind; exchanges inside background task runs are taken from the observation and only their "
            "consequences are checked. Remote parents / remote publication servers are modelled but cannot be reached by the harness.",
    "technique": "Lean 4 proof (induction over histories, projection lemmas) + correspondence check + oracle on the implementation's trace + source translators (table of the status-store calls of manager.rs; bodies of the nine status setters of api/ca.rs - RepoStatus::update_published / set_failure / set_last_updated, ParentStatus::set_entitlements / set_failure / set_last_updated, ChildStatus::set_success / set_failure / set_suspended - regenerated as Lean definitions and proved equal to the model, Props/C19Src.lean)",
}
