"""C15 — Trust-anchor proxy and signer only accept each other's fresh messages; each child request yields
exactly one response delivered once; TA manifest/CRL numbers only increase."""
import os, re, sys
sys.path.insert(0, os.path.dirname(os.path.abspath(__file__)))
import vlib
import proto_common as pc

RULE = ("stream proto, profile=ta: seeded histories against an in-process krill with embedded TA proxy + signer, two TA "
        "children, a second in-process krill (other proxy/signer pair) and offline re-initialised signers "
        "(TrustAnchorSignerManager): the exchange is driven step by step (ta_proxy_signer_make_request / get_request, "
        "signer process request, ta_proxy_signer_process_response) with honest, replayed, stale, re-ordered, cross-wired, "
        "re-signed, expired and clear-text-altered messages, children's requests (ca_sync_parent, key rolls, crafted "
        "requests through the local-child path) before and while a signer request is open, number overrides, signer "
        "add/update. The Lean driver replays every stored command of the proxy and the signer on the model's "
        "process/apply, predicts replies of the manager glue and the signer's responses, compares the full proxy and "
        "signer state after every op and evaluates exactly_once and ta_numbers_increase on the implementation's own "
        "events; distinct_nontrivial counts distinct (op kind, model branches) pairs")


def _slot_origin(case, idx, slot):
    """The op (words) that produced message slot `slot`, looking backwards from idx."""
    for t, _ in reversed(case["ops"][:idx]):
        o = pc.obs_of(t)
        if o.get("slot") == slot:
            return vlib.strip_obs(t).split()
    return []


def _lowering_override(case, idx):
    """Did an earlier signer run take a forced manifest number at or below the signer's own number?"""
    prev = {}
    for t, _ in case["ops"][:idx]:
        o = pc.obs_of(t)
        w = vlib.strip_obs(t).split()
        if len(w) > 2 and w[0] == "sign" and o.get("ret") == "ok":
            for x in w:
                if x.startswith("ovr=") and x[4:].isdigit():
                    before = prev.get(w[1])
                    if before is not None and int(x[4:]) <= before:
                        return True
        for name, sg in (o.get("signers") or {}).items():
            prev[name] = sg.get("num")
    return False


def signature(case, idx, verdict):
    op = vlib.strip_obs(case["ops"][idx][0]).split()
    if verdict.startswith("FAIL oracle"):
        words = verdict.split()[2:]
        if ";" in words:
            words = words[:words.index(";")]
        preds = sorted(set(words))
        detail = op[0] if op else "?"
        if "ta_numbers_increase" in preds:
            if op and op[0] == "sigupdate":
                detail = "sigupdate"
            elif op and op[0] == "resp":
                m = re.match(r"[A-Z]*(\d+)", op[1]) if len(op) > 1 else None
                origin = _slot_origin(case, idx, int(m.group(1))) if m else []
                # an altered copy: follow it back to the signed original
                hops = 0
                while origin and origin[0] == "mut" and hops < 8:
                    m2 = re.match(r"[A-Z]*(\d+)", origin[1])
                    origin = _slot_origin(case, idx, int(m2.group(1))) if m2 else []
                    hops += 1
                if any(w.startswith("ovr=") for w in origin) or _lowering_override(case, idx):
                    detail = "resp:override"
                else:
                    # a signer update since the request was opened?
                    since = []
                    for t, _ in reversed(case["ops"][:idx]):
                        w = vlib.strip_obs(t).split()
                        if w and w[0] in ("mkreq", "tasync") and pc.obs_of(t).get("ret", "").startswith("ok"):
                            break
                        since.append(w[0] if w else "")
                    detail = "resp:after-sigupdate" if "sigupdate" in since else "resp"
        return f"oracle:{','.join(preds)}:{detail}"
    if verdict.startswith("FAIL model"):
        return f"model:{op[0] if op else '?'}"
    return f"{verdict.split()[0] if verdict else '?'}:{op[0] if op else '?'}"


def check(ctx):
    # bodies of TrustAnchorProxy::process_signer_response / process_make_signer_request regenerated from the source;
    # C15Src: generated definitions = the model functions response_accepted_iff / one_open_request are about
    vlib.translate(ctx, [("pure_fns:C15", "PureFnsC15.lean")])
    vlib.prove(ctx, ["KrillModel.Props.C15", "KrillModel.Props.C15Src"])
    pc.private_kmodel(ctx)
    found = False
    if vlib.build_harness(ctx, ["proto"]):
        n, length = (28, 40) if ctx.tier == "quick" else (480, 70)
        traces = vlib.corpus_traces(ctx, "proto", corpus="proto-ta")
        traces += vlib.parallel_traces(ctx, "proto", n, length, procs=14, extra_args=["profile=ta"])
        found = pc.judge(ctx, traces, signature, sample_pref=("mkreq", "getreq", "sign", "resp", "mut", "tareq"))
    else:
        ctx.failed_obligations.append("harness-build")
    vlib.obligations_broken(ctx, found)
    ctx.assumptions += [
        "cryptography is symbolic (Dolev-Yao): a message is the key that signed it, its content, its clear-text copy and "
        "whether it is within its validity; the harness derives that description with rpki-rs's own validation",
        "exactly_once is proved for the proxy associated with signers that are associated with it (mutual association); "
        "nonces are fresh (uuid v4)",
        "ta_numbers_increase is proved for histories in which the proxy is not re-associated (UpdateSigner) with a signer "
        "whose manifest number is behind the published one (a signer initialised again with the same TA key and a too low "
        "initial number: open finding F-C15-2, proved to decrease the number in the model and replayed on the code) and in "
        "which the first association (AddSigner) happens while no signer request is open; forced manifest numbers and signer "
        "updates at any time are inside the statement since the fixes 109701d8 / 764cd480 (the pinned tree's behaviour is "
        "kept as counter-model Ta/Pinned.lean)",
        "child_details/open_requests/open_responses hash maps are modelled as maps keyed by (child, key); hash-map "
        "iteration order inside one signer request is not modelled (keys are distinct across children)",
        "revocation list expiry (remove_expired) and certificate validity times are not modelled",
    ]
    return vlib.finish(ctx, "proof", RULE)


def replay(ctx, data):
    return pc.replay(ctx, data, "KrillModel.Props.C15")


MANIFEST = {
    "text": "Lean 4 theorems over a model of the TA proxy aggregate (every command's process and event apply), the signer's "
            "process_signer_request and the manager glue: a signer response is accepted iff a request is open, the nonce is "
            "that request's and the message is validly signed by the associated signer, otherwise nothing changes; the signer "
            "processes a request iff it is validly signed by its associated proxy; over all command histories at most one "
            "signer request is open; over all histories of the composed system with a Dolev-Yao network (replay, re-order, "
            "cross-wire, forge), concurrent children and several/re-initialised signers an inductive invariant gives, per "
            "child and key, #accepted answers = #handed over + #waiting and <= #requests stored (exactly once, removed on "
            "delivery, handed to the sender only); the published manifest/CRL number never decreases and strictly increases "
            "at every accepted response, except when the operator re-associates the proxy with a re-initialised signer whose number "
            "is behind (decrease proved and replayed, open finding); two further ways to set the number back in the pinned tree "
            "were repaired (fix commits) and are kept as counter-models. "
            "The model is tied to the code by replaying every stored proxy/signer command of seeded adversarial histories on "
            "the model in lock-step with an in-process krill and by evaluating the theorem predicates on the implementation's "
            "own events",
    "note": "Kernel-checked theorems are about the model; the tie is seeded differential execution (stream proto, profile "
            "ta). Cryptography is symbolic; the message descriptions come from rpki-rs validation inside the harness. Findings: "
            "F-C15-1 (low --ta-mft-number-override, fixed 109701d8), F-C15-3 (stale response accepted after a signer update "
            "made while the request was open, fixed 764cd480), F-C15-2 open (`proxy signer update` with a re-initialised "
            "signer restarts the manifest number).",
    "technique": "Lean 4 proof (iff characterisations, inductive invariant over op histories with ghost counters, symbolic "
                 "Dolev-Yao network) + source translator (bodies of the proxy's process_signer_response / process_make_signer_request = the model: gen_process_signer_response_eq_model; the signer's two guards in front of the signing - validation under the proxy's identity, override must exceed the signer's current number - = the model's processSignerRequest: gen_process_signer_request_eq_model, accepted_override_exceeds_current) + lock-step correspondence on the real aggregates + oracle on observed events",
}
