"""C18 — Concurrent requests and background tasks never deadlock or lose work."""
import vlib

RULE = ("stream conc: 3-6 worker threads issue API operations (ROA/ASPA/BGPsec changes, entitlement changes, key roll, "
        "parent syncs, re-publication, RRDP updates) against one in-process krill while the real scheduler loop runs on its "
        "own thread, on memory and disk back-ends; a lockdep-style recorder logs every (held, wanted) lock pair; afterwards "
        "tasks are pumped and replies + observable state are compared with a one-at-a-time twin; distinct_nontrivial counts "
        "distinct (thread count, number of lock-edge classes) outcomes")


def sig(case, idx, verdict):
    if verdict.startswith("FAIL oracle"):
        return "oracle:" + ",".join(sorted(set(verdict.split()[2:])))
    return "model:" + " ".join(verdict.split()[2:8])


def corpus_repeated(ctx, reps):
    import concurrent.futures
    files = sorted((vlib.VERIF / "corpus" / "conc").glob("*.ops"))
    jobs = [(f, i) for f in files for i in range(reps)]
    def one(job):
        f, i = job
        tr = ctx.work / f"corpus-{f.stem}-{i}.trace"
        r = vlib.run([vlib.hbin("conc"), "--ops", str(f), "--out", str(tr)], timeout=3600)
        return (r.returncode, r.stdout[-2000:], tr)
    out = []
    with concurrent.futures.ThreadPoolExecutor(max_workers=12) as ex:
        for rc, tail, tr in ex.map(one, jobs):
            if rc != 0:
                vlib.report_violation(ctx, "harness-crash", {"harness": "conc", "output": tail}, signature="crash:conc:corpus")
            elif tr.exists():
                out.append(tr)
    return out


def wal_snapshot_race(ctx):
    """"No accepted change is lost, none is applied twice" for the write-ahead-log store while the snapshot task of another
    store object prunes the change sets: the corpus scenario aggstore-conc/race-wal-snapshot (harness `aggstore --conc`,
    op `racewal`) judged by the oracles none_lost_or_twice / versions_consecutive of the `aggstore` driver - the
    publication server's content log is such a store, its snapshot task runs on the scheduler thread beside the workers."""
    from pathlib import Path
    f = vlib.VERIF / "corpus" / "aggstore-conc" / "race-wal-snapshot.ops"
    if not f.exists():
        return False
    found = False
    tr = ctx.work / "race-wal.trace"
    r = vlib.run([vlib.hbin("aggstore"), "--ops", str(f), "--out", str(tr), "--conc"], timeout=3600)
    if r.returncode != 0:
        ctx.log(f"aggstore harness failed on race-wal-snapshot: {r.stdout[-1500:]}")
        vlib.report_violation(ctx, "harness-crash", {"harness": "aggstore", "output": r.stdout[-3000:]}, signature="crash:aggstore:racewal")
        return True
    vf = Path(str(tr) + ".verdict")
    if not vlib.run_model(ctx, "aggstore", tr, vf):
        vlib.report_violation(ctx, "model-driver-crash", {"stream": "aggstore"}, found_input=False)
        return False
    cases = vlib.parse_cases(tr, vf)
    if cases is None:
        vlib.report_violation(ctx, "model-driver-desync", {"stream": "aggstore"}, found_input=False)
        return False
    vlib.histogram(ctx, cases)
    ctx.traces_validated += len(cases)
    for c in cases:
        for idx, (t, v) in enumerate(c["ops"]):
            if v.startswith("FAIL") or v.startswith("bad-op"):
                found = True
                vlib.report_violation(ctx, "implementation-vs-oracle" if "ORACLE" in v or v.startswith("FAIL oracle") else "model-vs-implementation", {
                    "stream": "aggstore", "harness": "aggstore", "case": c["id"], "conc": True,
                    "ops": [vlib.strip_obs(x) for x, _ in c["ops"][: idx + 1]],
                    "verdict": v[:1500],
                    "replay_cmd": f"./check {ctx.pid} --replay <this file>",
                }, signature="oracle:racewal")
                break
    return found


def check(ctx):
    # the lock sites of /repo's current source: every site of a non-leaf lock must be visible
    # to the lock-order recorder (theorem source_lock_sites_annotated over the regenerated table)
    # ... and the follow-up tables of C09 ("no accepted change is lost" needs every follow-up to be scheduled
    # with a guaranteed method AFTER the change it is for: publication_schedules_after_change)
    vlib.translate(ctx, [("lock_sites", "LockSites.lean"), ("startup_guard", "StartupGuard.lean"),
                         ("event_tasks", "EventTasks.lean"), ("scheduler_tasks", "SchedulerTasks.lean")])
    vlib.prove(ctx, ["KrillModel.Props.C18", "KrillModel.Props.C07", "KrillModel.Props.C09"])
    found = False
    if vlib.build_harness(ctx, ["conc", "aggstore"]):
        found = wal_snapshot_race(ctx)
        n = 6 if ctx.tier == "quick" else 240
        # races are probabilistic: every corpus scenario is repeated
        reps = 3 if ctx.tier == "quick" else 40
        traces = corpus_repeated(ctx, reps)
        traces += vlib.parallel_traces(ctx, "conc", n, 0, procs=12)
        found = vlib.judge_traces(ctx, "conc", "conc", traces, sig) or found
        # a worker that never came back makes the harness exit with code 3 (reported as harness-crash above)
    else:
        ctx.failed_obligations.append("harness-build")
    vlib.obligations_broken(ctx, found)
    ctx.assumptions += [
        "real thread schedules are sampled, not enumerated; what is proved is that the ranking discipline excludes deadlock "
        "for any number of threads and programs, what is checked dynamically is that the code's lock nesting follows the ranking",
        "blocked-on-l implies some other unfinished thread holds l: proved for mutexes and for reader/writer locks incl. writer "
        "preference (rw_blocked_erase); that std RwLock / fd-lock / OS file locks follow those blocking rules is trusted",
        "leaf locks (no site keeps the guard over later statements: aggregate cache, WAL cache, session cache, active signers) "
        "are not instrumented; which locks are leaf is recomputed from the source on every run (translator lock_sites), and "
        "every site of every other lock must carry a lockdep annotation; the memory back-end's own data mutexes and the HSM "
        "signer back-ends are outside the table (translate/src/lock_sites.rs EXEMPT / out_of_scope)",
        "per-entity serialisability is C07's theorem (entity scope lock brackets each command)",
    ]
    return vlib.finish(ctx, "proof", RULE)


def replay(ctx, data):
    if data.get("harness") == "aggstore":
        vlib.build_harness(ctx, ["aggstore"])
        f = ctx.work / "replay.ops"
        f.write_text("case " + data.get("case", "replay-mem") + "\n" + "\n".join(data["ops"]) + "\n")
        tr = ctx.work / "replay.trace"
        vlib.run([vlib.hbin("aggstore"), "--ops", str(f), "--out", str(tr), "--conc"], timeout=3600)
        from pathlib import Path
        vf = Path(str(tr) + ".verdict")
        vlib.run_model(ctx, "aggstore", tr, vf)
        bad = False
        for c in vlib.parse_cases(tr, vf) or []:
            for t, v in c["ops"]:
                print(vlib.strip_obs(t), " ## ", v[:300])
                bad |= v.startswith("FAIL")
        if bad:
            print(f"VIOLATION property={ctx.pid} replay={f}")
            return 1
        ctx.cleanup()
        return 0
    vlib.build_harness(ctx, ["conc"])
    c = vlib.exec_ops(ctx, "conc", "conc", data.get("case", "replay-mem"), data["ops"], "replay")
    bad = False
    for t, v in c["ops"]:
        print(vlib.strip_obs(t), " ## ", v)
        bad |= v.startswith("FAIL")
    if bad:
        print(f"VIOLATION property={ctx.pid} replay={ctx.work}/replay.ops")
        return 1
    ctx.cleanup()
    return 0


MANIFEST = {
    "text": "Lean 4 theorem ranked_no_deadlock: for any number of threads and any lock programs, if every thread requests only locks "
            "ranked above all it holds (and releases everything), no reachable state is a deadlock (plus preservation of the "
            "discipline by every step, the inversion witness, and rw_ranked_no_deadlock: the same for reader/writer locks with or without "
            "writer preference – a thread blocked by the real rules is blocked in the mutex formulation); krill's lock classes are ranked in the model (entity scope < "
            "published-object store < task queue < signer stores; repository update lock < rsync lock). Tied to the code by a "
            "lockdep-style recorder hooked into every key-value scope lock (both back-ends), the repository update lock and the "
            "rsync lock: every (held, wanted) pair observed in concurrent runs with the real scheduler thread must respect the "
            "ranking; completion (watchdog), replies and final state are compared with a one-at-a-time twin and the RP walk. "
            "The history-cache mutex, the status cache, the signer router's pending set and the soft signer handle (in-process "
            "locks held across store calls) are ranked and recorded too, and a translator lists every lock site of the source: "
            "theorem source_lock_sites_annotated fails if a site of a non-leaf lock is invisible to the recorder",
    "note": "Partial by nature: schedules are sampled. Proof covers the discipline => no deadlock for all thread counts/programs; "
            "the dynamic check shows the code follows the discipline on the exercised paths (a potential inversion is reported "
            "without the fatal interleaving occurring). Leaf locks (guard never kept over a following statement, recomputed from "
            "the source each run) are not instrumented; runs use the daemon's default use_history_cache=true.",
    "technique": "Lean 4 proof (lock-ranking discipline, unbounded threads) + source translator (lock sites) + lockdep correspondence on concurrent runs + concurrent write-ahead-log scenario (workers beside the snapshot task of another store object: none_lost_or_twice, versions_consecutive)",
}
