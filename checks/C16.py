"""C16 — Untrusted input never brings the daemon down (partial: krill's own value-level code proved, codecs sampled)."""
import sys
from pathlib import Path
sys.path.insert(0, str(Path(__file__).resolve().parent))
import vlib
from pure_common import run_pure, replay as pure_replay
import http_common

PROPS = ["KrillModel.Props.C16", "KrillModel.Props.C16Src", "KrillModel.Props.C16SrcFns"]
RELEVANT = {"no_panic", "validated_arith_total", "covers_total"}
RULE = ("stream pure, set c16: (a) EXHAUSTIVE over the finite domain family x prefix length x max length (None, 0..255): "
        "max_length_valid / effective_max_length / set_explicit_max_length and nr_of_specific_prefixes under catch_unwind, "
        "'panicked' compared with the model's `none`; all pairs of prefix lengths for covers; (b) seeded: structured mutations "
        "of valid JSON for the API request types (ROA updates/payload, ASPA updates/providers, BGPsec updates, add/update child, "
        "parent request, import structure, import child), odd text notations (ROA delta text, ASPA text, router key names, resource "
        "sets), RISwhois text, mutated third-party CMS samples, CMS *validly signed by the registered identity* around hostile XML "
        "(RFC 6492 / RFC 8181), random bytes - each decoded and, where a pure follow-up exists, processed (process_updates, analysis "
        "dry run, verify_rfc6492, validate + as_query) under catch_unwind; decoded ROA deltas are also compared with the model's "
        "accept/refuse; (c) `strfn`: a registry of krill's own string-taking helpers on request paths (seems_global_uri raw and "
        "through uri::Rsync/uri::Https, RoaAggregateKey / RoaPayload / JSON map key / TypedPrefix / AsNumber / Announcement / "
        "KrillVersion / ObjectName / handle / class name / token / permission parsers) under catch_unwind on every host shape x port "
        "shape (empty, only ':', trailing ':', leading ':', several colons, '[' forms, IPv4/IPv6 literals with and without port, "
        "multi-byte characters around the split points, very long) plus 4000 generated strings; result kind compared with the "
        "checked model where one exists (seemsGlobalUri, roaAggregateKeyFromStr). distinct_nontrivial = distinct (op kind, outcome "
        "class) pairs")


def census_diff():
    """Rows of the generated census without a review row of the same (function, kind, count) - for the report."""
    import re
    gen = (vlib.LEAN / "KrillModel/Generated/PanicSites.lean").read_text()
    rev = (vlib.LEAN / "KrillModel/Input/PanicReview.lean").read_text()
    g = set(re.findall(r'^\s*\("([^"]+)", "([^"]+)", (\d+)\)', gen, re.M))
    r = set(re.findall(r'^\s*\("([^"]+)", "([^"]+)", (\d+),', rev, re.M))
    return sorted(g - r)


def check(ctx):
    # panic-site census of krill's own code, regenerated from /repo/src (theorem all_panic_sites_reviewed over it)
    vlib.translate(ctx, [("panic_sites", "PanicSites.lean"), ("pure_fns:C16", "PureFnsC16.lean")])
    try:
        d = census_diff()
        if d:
            ctx.notes.append("panic-site census rows without a review row of the same count (Input/PanicReview.lean): "
                             + "; ".join(f"{f} {k} x{n}" for f, k, n in d[:20]))
            ctx.log("census rows not reviewed:", d[:20])
    except OSError as e:
        ctx.notes.append(f"census diff not available: {e}")
    vlib.prove(ctx, PROPS)
    found = False
    if vlib.build_harness(ctx, ["pure"]):
        n = 2500 if ctx.tier == "quick" else 60000
        found = run_pure(ctx, "c16", n, RELEVANT)
    else:
        ctx.failed_obligations.append("harness-build")
    # path segments and request bodies through the REAL daemon (http harness, profile=pathfuzz)
    if vlib.build_harness(ctx, ["http"]):
        found = http_common.run_pathfuzz(ctx) or found
    else:
        ctx.failed_obligations.append("harness-build-http")
    # provisioning requests that krill's own children send after multi-step histories (a class lost at the parent, …):
    # scenarios in corpus/system-c16 through the in-process system, judged by `no_panic` (driver sysreq)
    if vlib.build_harness(ctx, ["system"]):
        def sig16(c, idx, v):
            w = vlib.strip_obs(c["ops"][idx][0]).split()
            return "oracle:no_panic:system:" + (w[0] if w else "?") if "no_panic" in v else "sysreq:" + (w[0] if w else "?")
        traces = vlib.corpus_traces(ctx, "system", corpus="system-c16", extra_args=["rp=0"])
        found = vlib.judge_traces(ctx, "system", "sysreq", traces, sig16) or found
    else:
        ctx.failed_obligations.append("harness-build")
    vlib.obligations_broken(ctx, found)
    ctx.assumptions += [
        "the panic-site census (translator panic_sites, theorem all_panic_sites_reviewed) counts index/slice, unwrap, expect, panic-family "
        "macros, integer division, shifts and process exits per function of krill's own code outside tests/CLI/upgrades; every row is "
        "classified by hand in Input/PanicReview.lean (the reasons are an audit, not a proof); arithmetic overflow sites are not in the "
        "census; a changed count or a new function breaks the theorem and the strfn ops then search for a failing input",
        "panic-freedom of the byte-level decoders of third-party crates (rpki-rs, bcder, serde/serde_json, quick-xml) is SAMPLED by the "
        "mutation stream, NOT proved; they enter the pipeline theorems as the parameter `decode`",
        "the harness is a debug build: arithmetic overflow panics; a release build wraps instead (no overflow-checks in "
        "[profile.release]) and returns a wrong number, slicing and unwrap panic in both; panic = abort turns every panic into a "
        "process exit in release",
        "CaManager::rfc6492 / RepositoryManager::rfc8181 are exercised up to the point a full server is needed: decode + "
        "CertAuth::verify_rfc6492 resp. PublicationCms::decode + validate + as_query; the request handlers behind them (issue, revoke, "
        "publish) and the HTTP layer are left to the system / http streams",
        "path segments and request bodies are additionally sent through the real daemon (http harness, profile=pathfuzz, admin "
        "credentials): every row of the generated route table with a typed or free segment gets boundary values, the JSON routes "
        "get structurally mutated bodies; a panic anywhere in the process is recorded by a panic hook, a missing answer or a "
        "failing follow-up health request counts as well; query strings are not used by krill's API",
    ]
    return vlib.finish(ctx, "proof", RULE)


def replay(ctx, data):
    if data.get("harness") == "http":
        return http_common.replay(ctx, data, PROPS, [])
    return pure_replay(ctx, data, PROPS)


MANIFEST = {
    "category": "proof",
    "text": "PARTIAL. Proved (Lean 4, kernel-checked): krill's own arithmetic, shifting and slicing on client-controlled values re-stated "
            "with checked operations (none = panic) is total - nr_of_specific_prefixes on every payload (after fix da59be0d; value "
            "2^(max_len - pfx_len), saturating for ::/0-128; the pinned tree's overflow kept as a labelled counter-model), the covers "
            "mask shift on well-formed prefixes, the host-bit test of the prefix parsers, RoaAggregateKey::from_str slicing, the "
            "analyser's authorizes_excess; BgpAnalyser::analyse always answers; every configuration request "
            "pipeline (decode; validate; process) answers and leaves the configuration unchanged unless accepted, for an arbitrary "
            "decoder. Sampled, not proved: the decoders themselves.",
    "note": "Panic-freedom of third-party byte-level decoders (rpki-rs, bcder, serde, quick-xml) is sampled by structured mutation and "
            "random bytes under catch_unwind (validation and search), not proved. The exhaustive part covers the complete finite "
            "domain of krill's length arithmetic on both sides. F-C16-1 (1u128 << 128 for ::/0-128, reached through "
            "nr_of_specific_prefixes in the analyser) was found here and is fixed (da59be0d); F-C16-2 (rpki-rs Asn::from_str slices "
            "s[..2] off a character boundary; reached from krill's JSON request types through ResourceSet) is open, upstream. "
            "Debug-vs-release overflow behaviour differs (model's none marks both). Typed path segments and request bodies are now "
            "also exercised through the real daemon (stream http, profile pathfuzz: boundary values for every parameter segment of "
            "the generated route table, mutated JSON bodies; oracle no_panic = answered, daemon still healthy, no panic recorded by "
            "the process-wide panic hook): F-C16-3 (history rows -> Vec::with_capacity capacity overflow), F-C16-4 (rpki-rs "
            "Base64::to_bytes unwrap on invalid base64 in id_cert fields) and the path-segment route to F-C16-2 were found there. "
            "Krill's own code is covered systematically by a panic-site census: translator panic_sites counts every index/slice, "
            "unwrap, expect, panic-family macro, integer division, shift and process exit per function (290 sites in 206 functions "
            "outside tests/CLI/upgrades); Props/C16Src.all_panic_sites_reviewed ties each row to a hand-classified review row with "
            "the same count (startup / internal / guarded / modelled / unreachable_from_client / finding), so a new site cannot "
            "appear unreviewed; the `strfn` ops of the pure stream search krill's own string helpers for a failing input; "
            "seems_global_uri (authorities of a client CSR's SIA URIs) has a checked model with seems_global_uri_total. The census "
            "audit found F-C16-5 / F-C16-6 (a handle with a backslash formatted into a URI and unwrapped; replayed on the real "
            "daemon, reported).",
    "technique": "Lean 4 proof (checked-arithmetic model, totality theorems) + source translators (panic-site census of krill's own code against a hand-reviewed table; bodies of RoaPayload::effective_max_length / max_length_valid / nr_of_specific_prefixes = the checked model) + exhaustive finite-domain correspondence + mutation sampling of decoders and of the running daemon",
}
