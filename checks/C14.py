"""C14 — Manifests, CRLs and signed objects are refreshed in time with rising numbers."""
import sys
from pathlib import Path
sys.path.insert(0, str(Path(__file__).resolve().parent))
import objlib, vlib

RULE = ("stream system judged by `kmodel sysobjects C14`: seeded histories (ROA/ASPA/BGPsec deltas, entitlement changes, "
        "key rolls, republish/renew runs, syncs) against an in-process krill in four timing regimes (default = nothing due; "
        "before_next >= next_hours = every set always due; reissue weeks > validity = every object always due for renewal; "
        "always due + key rolls); a case is one history; the model (Ca/Objects.lean, Ca/RoaObjects.lean) runs in lock-step on "
        "every stored command and republish run; distinct_nontrivial counts distinct (op kind, model branches) pairs")

DUE = ["before_next=30", "next_hours=24"]
RENEW = ["roa_reissue=60", "aspa_reissue=60", "bgpsec_reissue=60"]
# margins that differ per object kind: only one kind is inside its margin (a kind reading another kind's margin shows)
RENEW1 = [["roa_reissue=60"], ["aspa_reissue=60"], ["bgpsec_reissue=60"], ["bgpsec_weeks=6", "bgpsec_reissue=8", "aspa_reissue=4"]]
QUICK = [("default", 6, 14, ["profile=maint"]), ("due", 10, 14, DUE + ["profile=maint"]),
         ("renew", 4, 12, RENEW + ["profile=maint"]), ("renew1", 2, 12, RENEW1[2] + ["profile=maint"]),
         ("rolldue", 6, 16, DUE + ["profile=roll,maint"])]
THOROUGH = [("default", 90, 30, ["profile=maint"]), ("due", 170, 30, DUE + ["profile=maint"]),
            ("renew", 90, 30, RENEW + ["profile=maint"]), ("rolldue", 110, 40, DUE + ["profile=roll,maint"]),
            ("rollrenew", 60, 40, RENEW + ["profile=roll,maint"]), ("plain", 40, 30, [])] + \
           [(f"renew1-{i}", 24, 30, r + ["profile=maint"]) for i, r in enumerate(RENEW1)]

ASSUME = [
    "the wall clock is not controlled: 'due' is reached through the timing configuration (margins larger than lifetimes, set "
    "after Config::verify, which rejects them for a daemon); the theorems quantify over every instant and every timing value",
    "the trust anchor's own manifest/CRL are outside republish_all (refreshed by a proxy<->signer exchange, task RenewTestbedTa in "
    "testbed mode) - due_is_reissued is stated for CA key sets",
    "what signing produces (hashes, EE serials, jitter) and observed times are model inputs",
]


TA_ORACLES = ("ta_mft_crl_numbers_agree", "ta_numbers_increase")


def ta_stream(ctx):
    """The trust anchor's own manifest and CRL (refreshed by a proxy<->signer exchange, with and without the operator's
    manifest-number override): corpus proto-c14 through the proto harness and the Proto driver. Only the two number
    clauses of C14 are judged here (decoded from the repository: manifest number = CRL number, never decreasing);
    everything else in these traces is C15's."""
    import proto_common as pc
    found = False
    traces = vlib.corpus_traces(ctx, "proto", corpus="proto-c14")
    for tr in traces:
        vf = Path(str(tr) + ".verdict")
        if not vlib.run_model(ctx, "proto", tr, vf):
            vlib.report_violation(ctx, "model-driver-crash", {"stream": "proto", "trace": str(tr)}, found_input=False)
            continue
        cases = vlib.parse_cases(tr, vf)
        if cases is None:
            vlib.report_violation(ctx, "model-driver-desync", {"stream": "proto", "trace": str(tr)}, found_input=False)
            continue
        vlib.histogram(ctx, cases)
        ctx.traces_validated += len(cases)
        for c in cases:
            for idx, (t, v) in enumerate(c["ops"]):
                hit = [o for o in TA_ORACLES if o in v]
                if not hit:
                    continue
                found = True
                vlib.report_violation(ctx, "implementation-vs-oracle", {
                    "stream": "proto", "harness": "proto", "case": c["id"],
                    "ops": [vlib.strip_obs(x) for x, _ in c["ops"][: idx + 1]],
                    "verdict": "FAIL oracle " + " ".join(hit),
                    "replay_cmd": f"./check {ctx.pid} --replay <this file>",
                }, signature="oracle:" + ",".join(hit) + ":ta")
                break
    return found


def check(ctx):
    # bodies of KeyObjectSet::requires_reissuance / ResourceClassObjects::requires_re_issuance regenerated from the
    # source; C14Src: generated definitions = model functions
    return objlib.run(ctx, QUICK, THOROUGH, RULE, ASSUME, extra_bins=["proto"], extra_stream=ta_stream,
                      translate=[("pure_fns:C14", "PureFnsC14.lean")], extra_modules=["KrillModel.Props.C14Src"])


def replay(ctx, data):
    if data.get("harness") == "proto":
        import proto_common as pc
        vlib.build_harness(ctx, ["proto"])
        vlib.prove(ctx, ["KrillModel.Props.C14"])
        pc.private_kmodel(ctx)
        c = vlib.exec_ops(ctx, "proto", "proto", data.get("case", "replay"), data["ops"], "replay")
        bad = False
        for t, v in c["ops"]:
            print(f"{vlib.strip_obs(t)}  ## {v[:300]}")
            bad |= any(o in v for o in TA_ORACLES)
        if bad or c.get("crash"):
            f = ctx.work / "replay.ops"
            f.write_text("\n".join(data["ops"]) + "\n")
            print(f"VIOLATION property={ctx.pid} replay={f}")
            return 1
        ctx.cleanup()
        return 0
    return objlib.replay(ctx, data)


MANIFEST = {
    "text": "Lean 4 theorems over a model of CaObjects/KeyObjectSet/ObjectSetRevision and of create_renewal: a re-issue bumps the "
            "number by exactly one; manifest and CRL always carry the number and window of the stored revision (invariant over "
            "every history of commands and republish runs, every key state); the window contains the instant of issue for "
            "next_hours >= 1; a re-issue keeps the published objects; a republish run re-issues every class with a set within the "
            "margin (all its sets: current, staging, old) and reports the CA, and changes nothing when nothing is due; over every "
            "history the number equals the initial number plus the number of re-issues; renewal re-issues exactly the objects "
            "before the threshold and keeps the payloads. The model is tied to the code by lock-step differential execution on an "
            "in-process krill in four timing regimes and by evaluating the predicates on the implementation's own observations "
            "(incl. manifests/CRLs decoded by a relying-party walk).",
    "note": "Kernel-checked theorems are about the model. No control of the wall clock: 'due' regimes are configured, the passage of "
            "time is modelled only. TA objects outside republish_all (F-C14-1, by design of the code). Recorded finding F-C14-2: a "
            "command can re-issue a due manifest without queueing the repository sync (negation proved with a decide witness, replayed).",
    "technique": "Lean 4 proof (invariants over histories, induction) + correspondence check (system stream) + oracle on decoded repository + source translator (bodies of requires_reissuance / requires_re_issuance as Lean definitions, equality with the model proved)",
}
