"""C10 — Publication protocol: atomic deltas, hash checks and publisher isolation."""
import importlib.util
import vlib

_spec = importlib.util.spec_from_file_location("checks_pubd_common", vlib.VERIF / "checks" / "_pubd.py")
common = importlib.util.module_from_spec(_spec)
_spec.loader.exec_module(common)

RULE = ("stream pubd (C10 mix): seeded request sequences against the real RepositoryManager of an in-process KrillRuntime "
        "(2-4 publishers incl. prefix / nested / case-variant handles and `ta`; deltas of 1-4 elements with publish/update/"
        "withdraw, URIs in scheme/host case variants, every fourth delta with a bad last element; publisher removal, RRDP "
        "updates, session resets, delete-matching-files, interrupted writes); a case is one sequence; per op the reply, every "
        "publisher's list (RFC 8181 list query and publisher details), stats and the serialised content aggregate are "
        "compared with the Lean model in lock-step; distinct_nontrivial counts distinct (op kind, model branch) pairs, the "
        "branch of a publish names the staged-kind x new-kind merge cases it took")


def check(ctx):
    # order of the two persisted store calls of remove_publisher, regenerated from pubd/manager.rs
    # body of CurrentObjects::verify_delta_applies (three loops) regenerated from pubd/rrdp.rs; C10Src: = the model's verifyDelta
    vlib.translate(ctx, [("event_tasks", "EventTasks.lean"), ("pure_fns:C10", "PureFnsC10.lean")])
    vlib.prove(ctx, ["KrillModel.Props.C10", "KrillModel.Props.C10Removal", "KrillModel.Props.C10Src"])
    found = False
    if vlib.build_harness(ctx, ["pubd"]):
        jobs, n, length = (8, 30, 12) if ctx.tier == "quick" else (12, 600, 16)
        found = common.run(ctx, "C10", jobs, n, length)
    else:
        ctx.failed_obligations.append("harness-build")
    vlib.obligations_broken(ctx, found)
    ctx.assumptions += [
        "URIs are modelled as (scheme, authority, module, segments) with case tags; rpki-rs parsing itself is not modelled",
        "hashes are injective on the contents a run uses (content ids)",
        "theorems about staging/isolation assume deltas naming each URI once and well-formed rsync URIs (OpOk); isolation "
        "needs disjoint jails - nested jails are the open finding F-C10-1; F-C10-2 (scheme case) is fixed in /repo (0b03ffe5), "
        "the model follows the fixed code and keeps the old key function only as a counter-model",
        "the twelve merge cases of StagedElements::merge_new_elements are compared exhaustively (staged kind x new kind x hash relation x "
        "URI case variant) through a cfg-gated wrapper (corpus/pubd/merge-table.ops); only eight of them are reachable by verified deltas",
    ]
    return vlib.finish(ctx, "proof", RULE)


def replay(ctx, data):
    return common.replay(ctx, "C10", data)


MANIFEST = {
    "text": "Lean 4 theorems over a model of the publication server content (current objects keyed like CurrentObjectUri, staged "
            "elements keyed like uri::Rsync, verify_delta_applies, the twelve merge cases, objects_for_publisher, publisher base "
            "URIs, the manager's requests): publish_iff (accepted exactly when every publish is new, every update/withdraw names "
            "the held hash, all inside the jail), publish_atomic, staging_refines (list reply = current + staged, for every "
            "verified delta naming each URI once, by induction over the elements with an invariant on the staged set), "
            "rrdp_update_preserves, jails_disjoint_iff (iff-characterisation by '/'-segment prefixes and `ta`), isolation for "
            "disjoint jails, isolation_history, list_reply_is_current_content, remove_exact, with an invariant proved for every "
            "request history; the negation for nested handles is "
            "proved with a witness that replays on the implementation (open finding); the former split of equal URIs into two "
            "object keys (upper-case scheme) is fixed and kept as a counter-model of the pinned tree. The "
            "model is tied to the code by lock-step differential execution against the real RepositoryManager and by evaluating "
            "the theorem predicates on the implementation's own observations. Publisher removal as the SOURCE orders its two persisted "
            "store calls (regenerated from pubd/manager.rs on every run): interrupted after any number of them and submitted again it ends in "
            "exactly the state of an undisturbed removal (removal_recoverable); the other order orphans the objects (access_first_orphans); "
            "exercised by the pubd op rmpubf (removal with one failing key-value write + retry).",
    "note": "Kernel-checked theorems are about the model; the tie is seeded differential execution (replies, lists, stats, "
            "serialised aggregate state through a cfg-gated export). Crypto (CMS validation of RFC 8181 messages) is not part of "
            "this check (C12). Hash-map order is canonicalised by sorting on both sides.",
    "technique": "Lean 4 proof (induction over elements/requests, invariants, iff-characterisations, witnesses by decide) + "
                 "correspondence check with oracle on the implementation's trace + source translator (order of the persisted store calls of remove_publisher; removal_recoverable over the generated order; body of CurrentObjects::verify_delta_applies = the model's verifyDelta: gen_verify_delta_applies_eq_model; body of CurrentObjects::apply_delta = the model's applyDelta: gen_apply_delta_eq_model)",
}
