"""C03 — Whatever is revoked, removed or replaced is withdrawn and stays on the CRL."""
import sys
from pathlib import Path
sys.path.insert(0, str(Path(__file__).resolve().parent))
import objlib

RULE = ("stream system judged by `kmodel sysobjects C03`: seeded histories (object replacement/removal, child remove/suspend, "
        "entitlement shrink, parent removal, CA deletion, key rolls incl. revocation requests, mapped class names) against an "
        "in-process krill; the driver keeps a ghost set of every (key set, name, serial, expiry) ever published (states and events) "
        "and checks it against the revocation lists and the CRLs decoded by the relying-party walk after every op; the model's "
        "revocations/object sets/sync delta run in lock-step; distinct_nontrivial counts distinct (op kind, model branches) pairs")

DUE = ["before_next=30", "next_hours=24"]
QUICK = [("default", 10, 16, []), ("maint", 6, 16, ["profile=maint"]), ("roll", 8, 20, ["profile=roll"]),
         ("rollmaint", 4, 20, ["profile=roll,maint"]), ("due", 4, 14, DUE + ["profile=maint"])]
THOROUGH = [("default", 180, 36, []), ("maint", 120, 36, ["profile=maint"]), ("roll", 180, 40, ["profile=roll"]),
            ("rollmaint", 90, 40, ["profile=roll,maint"]), ("due", 70, 30, DUE + ["profile=maint"])]

ASSUME = [
    "expiry-based removal from the CRL (remove_expired) is modelled with an explicit clock; no object expires during a run",
    "the TA's add_issued/revoke_issued are outside the model (TrustAnchorObjects); TA-issued certificates are checked by the oracle only",
    "revocation requests are observed through key rolls (the child's key_roll_finished event = positive response)",
]


def check(ctx):
    # body of CertAuth::process_child_revoke_key regenerated from certauth.rs; C03Src: = the model's decision
    return objlib.run(ctx, QUICK, THOROUGH, RULE, ASSUME,
                      translate=[("pure_fns:C03", "PureFnsC03.lean")], extra_modules=["KrillModel.Props.C03Src"])


def replay(ctx, data):
    return objlib.replay(ctx, data)


MANIFEST = {
    "text": "Lean 4 theorems over a model of KeyObjectSet (insert/remove with revocation, update_roas/aspas/bgpsec/certs, reissue with "
            "remove_expired, retire) with a ghost history: along every history every (serial, notAfter) ever published that is not "
            "currently published is on the revocation list or had expired when expired entries were dropped; the CRL built at a "
            "re-issue lists exactly the revocations and every object change forces a re-issue in the same command (invariant over "
            "commands and republish runs); retire revokes everything; after a repository sync nothing but the current objects is on "
            "the server; the revocation-request decision (translate the child's class name, then look the class up): a positive "
            "answer for an issued key always removes the certificate (revoke_request_effective); the behaviour before fix "
            "43d7eca0 (F-C03-1, replayed at the time) is kept as a pinned counter-model.",
    "note": "Kernel-checked theorems are about the model. The unsuspended arm of update_certs (pre-0.16 events) inserts without revoking "
            "- excluded by hypothesis, shown by a counter-example. F-C03-1 fixed in /repo 43d7eca0.",
    "technique": "Lean 4 proof (ghost-state invariant over histories) + source translator (body of CertAuth::process_child_revoke_key = the model's decision: gen_process_child_revoke_key_eq_model; body of KeyState::revoke = requests for exactly the certified keys: gen_revoke_eq_model, revoke_covers_certified) + correspondence check (system stream) + oracle on decoded CRLs",
}
