"""C05 — Configuration changes are validated against held resources, all or nothing."""
import sys
from pathlib import Path
sys.path.insert(0, str(Path(__file__).resolve().parent))
import vlib
from pure_common import run_pure, replay as pure_replay

PROPS = ["KrillModel.Props.C05"]
RELEVANT = {
    "roa_delta_iff", "roa_delta_errors_exact", "roa_delta_all_or_nothing", "held_same_family",
    "aspa_update_iff", "aspa_events_match_result", "aspa_existing_iff", "bgpsec_update_iff",
    "child_add_iff", "child_update_iff", "child_id_iff",
    "unparsable-aspa-state", "no_panic",
}
RULE = ("stream pure, set c05: every line is one independent case - a ROA delta (0-5 additions, 0-3 removals, implicit/explicit "
        "max length, v4/v6, AS0, duplicates inside the delta, remove+re-add, comment changes; with and without the "
        "set_explicit_max_length normalisation) against a configuration of 0-6 authorisations and a resource set; an ASPA update / "
        "provider update; a BGPsec definition update with real CSRs (valid and invalidly signed); a child add / resource update / "
        "id update - run on the real Routes::process_updates, AspaDefinitions::process_updates, CertAuth::updated_allowed_and_needed, "
        "BgpSecDefinitions::process_updates, CertAuth::process_child_* (cfg-gated wrappers), events applied to a real CertAuth; "
        "thorough adds the complete 3-prefix x 2-ASN x 3-max-length universe (states <= 1 entry, <= 2 additions, <= 1 removal). "
        "plus stream system judged by driver sysreq: every single API request answered with an error has stored no successful command. "
        "distinct_nontrivial = distinct (op, model branch) pairs")


def sysreq_sig(case, idx, verdict):
    """`FAIL oracle refused_leaves_untouched <op> applied=[…]` -> `sysreq:refused_leaves_untouched:<op>`."""
    w = verdict.split()
    if verdict.startswith("FAIL oracle") and len(w) > 2:
        op = w[3] if len(w) > 3 and "=" not in w[3] else vlib.strip_obs(case["ops"][idx][0]).split()[0]
        return f"sysreq:{w[2]}:{op}"
    return "sysreq:" + (w[1] if len(w) > 1 else "?")


def check(ctx):
    # body of Routes::process_updates (both loops) regenerated from ca/roa.rs; C05Src: = the model's processUpdates
    vlib.translate(ctx, [("pure_fns:C05", "PureFnsC05.lean")])
    vlib.prove(ctx, PROPS + ["KrillModel.Props.C05Src"])
    found = False
    if vlib.build_harness(ctx, ["pure", "system"]):
        n = 30000 if ctx.tier == "quick" else 400000
        found = run_pure(ctx, "c05", n, RELEVANT)
        # request-level all-or-nothing on the real CaManager (system stream, driver `sysreq`)
        before = len(ctx.violations)
        traces = vlib.corpus_traces(ctx, "system", corpus="system-c05", extra_args=["rp=0"]) + \
            vlib.parallel_traces(ctx, "system", 12 if ctx.tier == "quick" else 200, 15, extra_args=["rp=0"])
        vlib.judge_traces(ctx, "system", "sysreq", traces, sysreq_sig, extra_args=["rp=0"])
        found = found or len(ctx.violations) > before
    else:
        ctx.failed_obligations.append("harness-build")
    vlib.obligations_broken(ctx, found)
    ctx.assumptions += [
        "rpki-rs's resource-set arithmetic (normalisation, contains, difference) is not modelled: the harness prints the normalised "
        "blocks and the model works on them",
        "Routes/AspaDefinitions/BgpSecDefinitions are HashMaps; the model is an association list with map semantics; both sides are "
        "compared after sorting",
        "a CSR is a token with two observed attributes (key identifier, signature verifies); the clock ticks between two Time::now() calls",
        "the request-level statement (a refused API request has stored no successful command) is judged on the real CaManager by the "
        "system stream (driver sysreq) on corpus and generated scenarios; the multi-field child update violates it (F-C05-1, open)",
        "that a command without events leaves the store untouched apart from its audit record is C07's theorem",
    ]
    return vlib.finish(ctx, "proof", RULE)


def replay(ctx, data):
    if data.get("harness") == "system":
        vlib.build_harness(ctx, ["system"])
        vlib.prove(ctx, PROPS)
        c = vlib.exec_ops(ctx, "system", "sysreq", data.get("case", "replay"), data["ops"], "replay", ["rp=0"])
        for t, v in c["ops"]:
            print(f"{t[:300]}  ## {v}")
        if c.get("crash") or vlib.first_failure(c):
            print(f"VIOLATION property={ctx.pid} replay={ctx.work}/replay.ops")
            return 1
        print("replay: no failure")
        ctx.cleanup()
        return 0
    return pure_replay(ctx, data, PROPS)


MANIFEST = {
    "text": "Lean 4 theorems over models of Routes::process_updates, AspaDefinitions::process_updates, "
            "CertAuth::updated_allowed_and_needed, BgpSecDefinitions::process_updates and the child checks: a ROA delta is refused "
            "exactly when some entry is bad (removal of an absent authorisation, invalid max length, prefix not held, already present "
            "with the same comment - each judged against the configuration as it is when the entry is reached), the error report is "
            "exactly the list of bad entries per class and in order, an accepted delta's events produce (r \\ removed) U added with the "
            "last comment of each addition, a refused one produces no event; the analogous iff-characterisations for ASPA updates, "
            "ASPA provider updates, router keys, child add and child resource update, for every state and every request (induction over "
            "the delta, no bound); an accepted ASPA update leaves exactly the definitions the objects were issued from; krill's 'held' test is "
            "holding a block of the prefix' own family; labelled counter-models of what the pinned tree did before the fixes f600a28f and "
            "abeec4b3; the request-level statement (a refused API request leaves nothing applied) is proved false of the model for the "
            "multi-field child update and tied to the real CaManager through the system stream (driver sysreq); the models "
            "are tied to the code by differential execution on seeded and, in the thorough tier, exhaustive small-scope inputs and by "
            "evaluating the theorem predicates on the implementation's own results",
    "note": "Kernel-checked theorems are about the model; the tie is differential execution (tens of thousands of cases per run, complete "
            "small universe in the thorough tier). 'Held' is a parameter of the iff-theorems; krill's test (RoaPayload::is_held_by since "
            "fix f600a28f) is modelled as written. F-C05-2 (family-blind held test) and F-C05-3 (ASPA events vs issued objects) were "
            "found here and are fixed; F-C05-1 (ca_child_update runs one request as several commands) is open, replayed on the real "
            "CaManager by the system stream. An entitlement update to the empty set is accepted by design (C02). Repository content is not "
            "touched by this stream (no signer): 'leaves the repository untouched' rests on 'no event' plus C07/C01.",
    "technique": "Lean 4 proof (induction over deltas, iff-characterisations) + source translator (body of Routes::process_updates, both loops = the model's processUpdates: gen_process_updates_eq_model) + correspondence check (seeded + exhaustive small scope)",
}
