"""C04 — Key rollover is safe in every interleaving and always completes."""
import sys
from pathlib import Path
sys.path.insert(0, str(Path(__file__).resolve().parent))
import ca_common

ASSUMPTIONS = [
    "a key is a name; signer.create_key() returns a key that is not already a key of the class (the model refuses other inputs)",
    "ROA/ASPA/BGPsec object updates that accompany a received certificate or a configuration change are inputs of the model "
    "(their computation belongs to C01/C05); at key activation the model re-issues every product, as the code does",
    "repository migration (old_repo) and the staging/initiate durations (always 0 in the harness) are not modelled",
    "roll_completes: every parent answers (certificate with the entitled resources, revocation response); child certificates "
    "carry no request limit (a limit that no longer fits makes the received certificate fail and the class is dropped)",
    "HashMap iteration order is arbitrary: the model visits classes in insertion order, the driver compares per class",
]


def check(ctx):
    return ca_common.run(ctx, "KrillModel.Props.C04", "C04", ASSUMPTIONS)


def replay(ctx, data):
    return ca_common.replay(ctx, data, "KrillModel.Props.C04", "C04")


MANIFEST = {
    "text": "Lean 4 theorems over a model of the key-state machine (KeyState with every apply_* of rc.rs as a partial function), "
            "the published-object side (ResourceClassKeyState) and the CertAuth command processing for key rolls, received "
            "certificates and entitlements: process only emits events whose apply arm does not panic (stated against a table of "
            "panic-free key-state variants regenerated from rc.rs/keys.rs/certauth.rs on every run), aggregate and object sets "
            "mirror each other, only the current set carries products, activation moves every product in one command, finish "
            "removes the old set, a second initiate is a no-op, the schedule (sync, activate, sync) completes a roll; tied to "
            "the code by lock-step execution of the model against an in-process krill on seeded histories and by evaluating the "
            "theorem predicates on the implementation's own state",
    "note": "Kernel-checked theorems are about the model. Partial: process_emits_applicable excludes revocation requests under a "
            "class-name mapping (F-C04-1 replays: panic), no_loss_no_dup holds for histories without unsuspension (F-C02-1), "
            "roll_completes assumes answering parents and no request limits. Real cryptography, manifests/CRLs and the wall "
            "clock are outside the model.",
    "technique": "Lean 4 proof (invariants by induction over command histories) + source translator (panic domains) + correspondence check",
}
