"""C04 — Key rollover is safe in every interleaving and always completes."""
import sys
from pathlib import Path
sys.path.insert(0, str(Path(__file__).resolve().parent))
import ca_common

ASSUMPTIONS = [
    "a key is a name; signer.create_key() returns a key that is not already a key of the class (the model refuses other inputs)",
    "ROA/ASPA/BGPsec object updates that accompany a received certificate or a configuration change are inputs of the model "
    "(their computation belongs to C01/C05); at key activation the model re-issues every product, as the code does",
    "repository migration (old_repo) and the staging/initiate durations (always 0 in the harness) are not modelled",
    "roll_completes_partial is about the class's key-state machine (Ca/KeySync.lean) with an answering parent; its tie to the "
    "manager-level sync is the lock-step run, not a proof; at the Sys level KeyRollActivate is refused as a whole while any class "
    "has a new key with open requests, and child certificates with request limits can make shrink/activation fail",
    "no_loss_no_dup_partial assumes objects_mirror (C01) and no stale suspended entry before the activation command; "
    "no_loss_no_dup_quiet_partial proves the second for every history without an unsuspension of a suspended child",
    "HashMap iteration order is arbitrary: the model visits classes in insertion order, the driver compares per class",
]


def check(ctx):
    return ca_common.run(ctx, "KrillModel.Props.C04", "C04", ASSUMPTIONS)


def replay(ctx, data):
    return ca_common.replay(ctx, data, "KrillModel.Props.C04", "C04")


MANIFEST = {
    "text": "Lean 4 theorems over a model of the CertAuth aggregate projected on resource classes, keys, children and child "
            "certificates (KeyState with every apply_* of rc.rs as a partial function, process for all commands that touch that state) "
            "and of the published-object side (ResourceClassKeyState, pre-save listener), all for every state reachable by any command "
            "history with any inputs: the model's apply is defined exactly on the panic-free domain GENERATED from "
            "certauth.rs/rc.rs/keys.rs on every run (apply_domain_matches_model); process only emits events that apply without panic "
            "and that the listener accepts (process_emits_applicable_partial; the exception - revocation under a class-name mapping - "
            "is proved to panic and replays, F-C04-1); aggregate and object sets mirror each other, keys of a class are distinct "
            "(mirror, keys_distinct); only the current set carries products (single_signer); the activation command moves every "
            "product and child certificate to the new key's set and empties the old one (activation_moves_everything, "
            "no_loss_no_dup_partial, no_loss_no_dup_quiet_partial, witness of the loss after unsuspension F-C02-1); the finish command leaves one set "
            "(finish_removes_old_set); a second initiate emits nothing (second_roll_noop); two rounds of (sync, activate, sync) complete "
            "every roll of the class key-state machine (roll_completes_partial). Tied to the code by lock-step execution of the model "
            "against an in-process krill (every stored command: events predicted by process, observed events applied by the partial "
            "apply and the listener model, state compared with CertAuth and CaObjects) on hand-written scenarios and seeded histories, "
            "and by the theorem predicates evaluated on the implementation's own state",
    "note": "Kernel-checked theorems are about the model. Partial: process_emits_applicable excludes revocation requests whose "
            "translated class is missing or pending (F-C04-1 replays: panic in the request handler); no_loss_no_dup needs objects_mirror "
            "and no stale suspended entry (F-C02-1); roll_completes is proved on the class key-state machine, not lifted to the "
            "multi-class Sys level. Also recorded: F-C03-1 (revocation under a mapped class name ignored) and F-C04-2 (activation "
            "re-issues ROAs outside a shrunken new certificate). Real cryptography, manifests/CRLs and the wall clock are outside the model.",
    "technique": "Lean 4 proof (invariants by induction over command histories, finite abstraction + decide, concrete counter-examples) "
                 "+ source translator (panic domains) + correspondence check",
}
