"""C04 — Key rollover is safe in every interleaving and always completes."""
import sys
from pathlib import Path
sys.path.insert(0, str(Path(__file__).resolve().parent))
import ca_common

ASSUMPTIONS = [
    "a key is a name; signer.create_key() returns a key that is not already a key of the class (the model refuses other inputs)",
    "ROA/ASPA/BGPsec object updates that accompany a received certificate or a configuration change are inputs of the model "
    "(their computation belongs to C01/C05); at key activation the model re-issues every product, as the code does",
    "repository migration (old_repo) and the staging/initiate durations (always 0 in the harness) are not modelled",
    "roll_completes: at the Sys level every roll step is proved to be stored from EVERY reachable state (roll_initiate_progress, "
    "roll_receive_progress, roll_activate_progress, roll_finish_progress, composed in roll_completes_from_pending); activation "
    "needs Rc.activatable for every class with a new key (no open request for its keys; every child certificate carries its limit "
    "and lies inside the new key's certificate) - KeyRollActivate is refused as a whole otherwise; roll_completes_partial is the "
    "class key-state machine with an answering parent (which sync sends what), tied to the manager-level sync by the lock-step run",
    "no_loss_no_dup_partial assumes objects_mirror (C01: before the activation command the current set publishes what the class "
    "holds); that no key is both issued and suspended is proved for every history (fix bb96d233)",
    "listener_accepts holds for every command of every reachable state since fix 239f0a59 (a revocation is executed only for a "
    "key in use in the class the request names; such a class is past pending); the former exception - a request naming a pending "
    "class made the listener fail - is kept as pinned_revoke_for_pending_class_listener_error",
    "pinned_* theorems are counter-models of the tree before fixes bb96d233 / 43d7eca0 / 7be8c4c6 / 02d8de59 / 239f0a59 (the old "
    "add_issued_certificate, process_child_revoke_key and process_child_resource_class_name_mapping kept as separate definitions, "
    "Ca.pinnedProcess); they say nothing about the current tree",
    "HashMap iteration order is arbitrary: the model visits classes in insertion order, the driver compares per class",
]


def check(ctx):
    # body of KeyState::knows_key regenerated from ca/keys.rs; C04Src: = the model's KeyState.knows
    return ca_common.run(ctx, "KrillModel.Props.C04", "C04", ASSUMPTIONS,
                         translate=[("pure_fns:C04", "PureFnsC04.lean")], extra_modules=["KrillModel.Props.C04Src"])


def replay(ctx, data):
    return ca_common.replay(ctx, data, "KrillModel.Props.C04", "C04")


MANIFEST = {
    "text": "Lean 4 theorems over a model of the CertAuth aggregate projected on resource classes, keys, children and child "
            "certificates (KeyState with every apply_* of rc.rs as a partial function, process for all commands that touch that state) "
            "and of the published-object side (ResourceClassKeyState, pre-save listener), all for every state reachable by any command "
            "history with any inputs: the model's apply is defined exactly on the panic-free domain GENERATED from "
            "certauth.rs/rc.rs/keys.rs on every run (apply_domain_matches_model); process only emits events that apply without panic, "
            "for every command including revocation requests under any class-name mapping, so no command of any history panics "
            "(process_emits_applicable, process_emits_in_domain, never_panics; since fix 43d7eca0 - the pinned tree's panic and its "
            "ignored revocation are kept as pinned_revoke_under_mapping_panics / pinned_revoke_mapped_ignored) and the listener accepts "
            "them, so every command is refused or stored (listener_accepts, exec_refused_or_stored; unconditional since fix 239f0a59); aggregate and object sets mirror each other, keys of a class are distinct "
            "(mirror, keys_distinct); only the current set carries products (single_signer); the activation command moves every "
            "product and child certificate to the new key's set and empties the old one (activation_moves_everything, "
            "no_loss_no_dup_partial; pinned_activation_loses_stale_child is the loss on the pinned tree); the finish command leaves one set "
            "(finish_removes_old_set); a second initiate emits nothing (second_roll_noop); two rounds of (sync, activate, sync) complete "
            "every roll of the class key-state machine (roll_completes_partial) and at the Sys level each roll step is stored from every "
            "reachable state and reaches the next roll state (roll_*_progress, roll_completes_from_pending); a stored revocation leaves "
            "no certificate for the key (revoke_removes_certificate). Tied to the code by lock-step execution of the model "
            "against an in-process krill (every stored command: events predicted by process, observed events applied by the partial "
            "apply and the listener model, state compared with CertAuth and CaObjects) on hand-written scenarios and seeded histories, "
            "and by the theorem predicates evaluated on the implementation's own state",
    "note": "Kernel-checked theorems are about the model. Still unproved: (1) no_loss_no_dup needs C01's objects_mirror as a hypothesis "
            "(before activation the current set publishes what the class holds); (2) - (closed by fix 239f0a59: listener_accepts is "
            "unconditional); (3) roll completion: each roll step is proved to succeed from every reachable state, "
            "but that the activatable hypothesis eventually holds (the parent certifies the new key with at least the resources of the "
            "child certificates; open requests get answered) and which sync sends which request is proved only on the class key-state "
            "machine (roll_completes_partial), not for the manager-level sync of two aggregates; (4) the proxy/signer exchange under "
            "the TA is exercised by traces only. F-C02-1, F-C03-1, F-C04-1, F-C04-3, F-C02-2, F-C02-3, F-C03-3 are fixed (bb96d233, 43d7eca0, "
            "02d8de59, 7be8c4c6, 239f0a59): their scenarios stay in the corpus and fail the check if the behaviour returns. Open: "
            "F-C04-2 (activation re-issues ROAs outside a shrunken new certificate). Real cryptography, manifests/CRLs and the wall clock are outside the model.",
    "technique": "Lean 4 proof (invariants by induction over command histories, finite abstraction + decide, concrete counter-examples) "
                 "+ source translators (panic domains of the apply functions; bodies of KeyState::knows_key and KeyState::append_keyroll_activate = the model: gen_knows_key_eq_model, gen_append_keyroll_activate_eq_model) + correspondence check",
}
