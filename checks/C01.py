"""C01 — Published tree is relying-party valid and says exactly what was configured."""
import sys
from pathlib import Path
sys.path.insert(0, str(Path(__file__).resolve().parent))
import objlib

RULE = ("stream system judged by `kmodel sysobjects C01`: seeded histories (ROA/ASPA/BGPsec deltas incl. invalid ones, child "
        "add/remove/suspend, entitlement grow/shrink at any level, second parent, key rolls, republish/renew, syncs) against an "
        "in-process krill with embedded TA and publication server, aggregation thresholds in {1,2,3}^2; a case is one history; the "
        "model recomputes create_updates/create_renewal for every stored command, the object sets and the sync delta in lock-step; "
        "the oracle evaluates PayloadsExact/ObjectsMirror/ManifestListsExactly/ServerMatchesObjects and the relying-party walk; "
        "distinct_nontrivial counts distinct (op kind, model branches) pairs")

DUE = ["before_next=30", "next_hours=24"]
RENEW = ["roa_reissue=60", "aspa_reissue=60", "bgpsec_reissue=60"]
QUICK = [("default", 10, 16, []), ("maint", 6, 16, ["profile=maint"]), ("roll", 8, 18, ["profile=roll"]),
         ("due", 4, 14, DUE + ["profile=maint"]), ("renew", 4, 12, RENEW + ["profile=maint"])]
THOROUGH = [("default", 180, 36, []), ("maint", 120, 36, ["profile=maint"]), ("roll", 140, 40, ["profile=roll"]),
            ("rollmaint", 80, 40, ["profile=roll,maint"]), ("due", 70, 30, DUE + ["profile=maint"]),
            ("renew", 50, 30, RENEW + ["profile=maint"])]

ASSUME = [
    "resource sets are whole atoms (AS + /16 + /48) as the harness hands them out; rpki-rs block arithmetic is not modelled",
    "signatures, DER validity and hashes are checked by the harness's relying-party walk (rpki-rs), not by the theorems",
    "the relying-party predicates are evaluated when no task is due and every CA holds the certificate its parent currently issues "
    "(the periodic child->parent refresh has caught up)",
    "quiescent_valid_partial covers one CA level without key rolls; quiescent_valid_tree lifts per-node conditions to any hierarchy; "
    "that every node meets them along every history (mirror for ASPA/router/child certificates, unexpired/unrevoked, parent and "
    "child agree on the child's certificate) is checked dynamically: the model's TreeValid and payload walks run on the real "
    "repository content (stream rptree)",
    "rptree: signature verdicts come from rpki-rs (an object whose signature fails is exported with a fresh issuer key); problem "
    "kinds outside the abstraction (profile/URI strictness: sia/aia/crldp mismatches, duplicate serials, not-yet-valid, …) make "
    "the comparison of that line one-directional; resource sets are whole atoms",
]


def roaobj_sig(case, idx, verdict):
    op = case["ops"][idx][0].split()
    if verdict.startswith("FAIL oracle"):
        return "oracle:" + ",".join(sorted(set(verdict.split()[2:]))) + ":roaobj-" + op[0]
    return "model:roaobj-" + op[0]


def roaobj(ctx):
    """High-volume tie of Roas::create_updates / mode / create_renewal (thresholds drawn at and next to
    the number of covered routes) through krill::verif::roa_objects."""
    import vlib
    n, length, procs = (30, 12, 6) if ctx.tier == "quick" else (1200, 25, 12)
    traces = vlib.parallel_traces(ctx, "roaobj", n, length, procs=procs)
    return vlib.judge_traces(ctx, "roaobj", "roaobj", traces, roaobj_sig)


def rptree_sig(case, idx, verdict):
    op = case["ops"][idx][0].split()
    if verdict.startswith("FAIL oracle"):
        return "oracle:" + ",".join(sorted(set(verdict.split()[2:]))) + ":rptree-" + op[0]
    return "model:rptree-" + op[0]


def rptree(ctx, traces):
    """The Lean relying-party model itself (TreeValid, treeVrps, treeAspas, treeRouterKeys of Sys/Rp.lean)
    executed on the real repository content every observation exports (`rp.abstract`) and compared with the
    rpki-rs walk's verdict on the same line; on quiescent lines PayloadsExact against the configuration."""
    import vlib
    validated = ctx.traces_validated
    found = vlib.judge_traces(ctx, "system", "rptree", traces, rptree_sig)
    ctx.traces_validated = validated          # the same cases as the sysobjects driver judged
    counts = {k[len("rptree:"):]: v for k, v in ctx.hist.items() if k.startswith("rptree:") and k != "rptree:skip"}
    note = ("rptree: TreeValid/treeVrps/treeAspas/treeRouterKeys executed on the real repository content of "
            f"{sum(counts.values())} observations and compared with the rpki-rs walk: "
            + ", ".join(f"{k}={v}" for k, v in sorted(counts.items())))
    ctx.notes[:] = [n for n in ctx.notes if not n.startswith("rptree: ")] + [note]
    return found


def check(ctx):
    return objlib.run(ctx, QUICK, THOROUGH, RULE + "; stream system judged a second time by `kmodel rptree`: the Lean "
                      "relying-party model (TreeValid, treeVrps, treeAspas, treeRouterKeys) runs on the repository content "
                      "each observation exports (certificates, files per publication point, catalog hash -> decoded object) "
                      "and must agree with the rpki-rs walk on validity and on the extracted payloads; on quiescent lines "
                      "PayloadsExact(model walk, configured ∩ covered)" + "; stream roaobj: Roas::create_updates/mode/create_renewal/"
                      "apply_updates called directly (krill::verif::roa_objects) on an evolving Roas value with "
                      "route sets, claimed resources and both thresholds varied per op",
                      ASSUME, extra_bins=["roaobj"], extra_stream=roaobj,
                      # body of Roas::mode regenerated from the source; C01Src: generated definition = model function
                      translate=[("pure_fns:C01", "PureFnsC01.lean")], extra_modules=["KrillModel.Props.C01Src"],
                      also_judge=rptree)


def replay(ctx, data):
    return objlib.replay(ctx, data)


MANIFEST = {
    "text": "Lean 4 theorems over a model of Roas::create_updates/mode (simple, start, stop, aggregate with both thresholds and "
            "hysteresis), the ASPA and BGPsec counterparts, KeyObjectSet/ManifestBuilder and ca_repo_sync: for every reachable Roas "
            "state, route set, certificate and threshold pair the payloads of the objects after create_updates are exactly the "
            "configured routes the certificate covers, each in exactly one object; the manifest lists the CRL and exactly the "
            "published objects along every history; after applying the computed delta to any server content the content equals "
            "all_publish_elements; one CA level composed into an abstract relying-party validator (TreeValid, PayloadsExact). Tied to "
            "the code by lock-step differential execution on an in-process krill (every stored command) and by a relying-party walk "
            "(rpki-rs) over the real repository judged by the same predicates.",
    "note": "Kernel-checked theorems are about the model. Partial: the full-hierarchy / key-roll composition (quiescent_valid) is "
            "proved for one CA level only and checked dynamically beyond. Recorded findings F-C01-1 (overclaiming ROA after key-roll "
            "activation, open), F-C01-2 (certificate without resources, open); the relying-party consequences of F-C03-1 and "
            "F-C02-1 are fixed in /repo (43d7eca0, bb96d233).",
    "technique": "Lean 4 proof (invariants, iff-characterisations, induction over the CA hierarchy) + correspondence check (system stream) + the Lean relying-party model executed on the real repository content and compared with an rpki-rs walk + source translator (body of Roas::mode)",
}
