"""C02 — Delegation follows entitlements, never over-claims, converges and is idempotent."""
import sys
from pathlib import Path
sys.path.insert(0, str(Path(__file__).resolve().parent))
import ca_common

ASSUMPTIONS = [
    "resources are sets of atoms (AS + IPv4 /16 + IPv6 /48 triples); rpki-rs block arithmetic is assumed to satisfy the set laws",
    "a request limit is empty or one atom set for all three families; the system harness only produces empty limits (an op for "
    "limits is not planned: it needs a crafted CSR exchange), so applyLimit is exercised by the theorems only",
    "wants_update: the f64 ratio tests are restated in integer arithmetic (equivalent for |seconds| < 2^45)",
    "sync_converges: Ca/Exchange.lean models ca_sync_parent on two real aggregates (Pair.sync: list/issue/revoke of the parent, "
    "UpdateEntitlements/UpdateRcvdCert/KeyRollFinish/DropResourceClass of the child); exchange_idempotent is proved for every "
    "pair, convergence on concrete pairs only (exchange_converges_instances) and, for every well-formed key state, on the class "
    "key-state machine with an answering parent and a fixed clock (sync_converges_partial)",
    "shrink_active_child is about the class: every issued certificate is kept, narrowed or removed exactly as the intersection "
    "demands, in every reachable state; the link from 'key in use by an active child' to 'issued in the class' additionally needs "
    "that no two children present the same key (model corner shown as an example; the oracle ActiveChildHasCert checks the "
    "state-level predicate on the implementation)",
    "pinned_* theorems are counter-models of the tree before fix bb96d233 (the old add_issued_certificate kept as a separate "
    "definition); they say nothing about the current tree",
    "HashMap iteration order is arbitrary: the model visits entries in insertion order, the driver compares sorted",
]


# replays of the recorded OPEN findings of the convergence clause (F-C02-4..7): the `settle` oracle must keep
# reporting each with its own classification (KNOWN-FINDING); a different non-convergence in them is a violation
OPEN_FINDING_SCENARIOS = [
    "corpus/system-findings/c02-h-request-for-lost-class.ops",
    "corpus/system-findings/c02-g-parent-shrinks-and-regrows.ops",
    "corpus/system-findings/c02-a2-class-added-after-mapping.ops",
    "corpus/system-findings/c02-f2-child-readded-during-roll.ops",
]


def check(ctx):
    # body of CertifiedKey::wants_update regenerated from the source; C02Src: generated definition = model function
    return ca_common.run(ctx, "KrillModel.Props.C02", "C02", ASSUMPTIONS,
                         translate=[("pure_fns:C02", "PureFnsC02.lean")], extra_modules=["KrillModel.Props.C02Src"],
                         finding_scenarios=OPEN_FINDING_SCENARIOS)


def replay(ctx, data):
    return ca_common.replay(ctx, data, "KrillModel.Props.C02", "C02")


MANIFEST = {
    "text": "Lean 4 theorems over a model of certificate issuance (issuer certificate ∩ child entitlement, limit applied, containment "
            "checked), the issued/suspended maps with the exact insert/remove behaviour of child.rs, shrink_overclaiming, activate_key, "
            "wants_update, the entitlement events and the whole CertAuth command processing around them: issued certificates are exactly "
            "limit(issuer ∩ entitlement) (issued_exact); in every state reachable by any command history no issued child certificate "
            "exceeds the current key's certificate, and the command that receives a smaller certificate or activates a new key restores "
            "that itself (never_overclaims, shrink_in_same_command, activation_keeps_containment); in every reachable state no key is "
            "both issued and suspended (classes_tidy) and the shrink keeps, narrows or removes each issued certificate exactly as the "
            "intersection demands, whatever the suspension history (shrink_active_child, unbounded; since fix bb96d233 - the pinned "
            "tree's stale entry, the withdrawn certificate of an active child and the orphan left published are kept as "
            "pinned_add_issued_leaves_stale_entry, pinned_shrink_withdraws_active_child, pinned_shrink_orphans_certificate); a converged child's "
            "sync emits no event and changes nothing (sync_idempotent, for every state); every well-formed key state converges within two "
            "rounds and two syncs to one key with exactly the offered resources and no open request (sync_converges_partial); on the two-aggregate exchange a converged pair is left unchanged by a further sync "
            "(exchange_idempotent, every pair) and concrete pairs converge for every kind of entitlement change (exchange_converges_instances). Tied to "
            "the code by lock-step execution against an in-process krill and by the theorem predicates evaluated on the "
            "implementation's own state",
    "note": "Kernel-checked theorems are about the model. Still unproved: (1) sync_converges for an ARBITRARY reachable parent/child "
            "pair - proved are idempotence for every pair (exchange_idempotent, sync_idempotent), convergence of every well-formed key "
            "state of one class against an answering parent (sync_converges_partial) and convergence of concrete pairs for first "
            "delegation, partial shrink, shrink to nothing, regain, two classes, a class-name mapping and a child key roll "
            "(exchange_converges_instances); the link 'every class of the child follows the key-state machine under Pair.sync' and "
            "hierarchies deeper than two levels are covered by the lock-step run only; (2) the published level of never_overclaims "
            "is evaluated by the oracle (NoOverclaimPublished) and rests on C01's objects_mirror; (3) the state-level ActiveChildHasCert "
            "needs that no two children present the same key. F-C02-1, F-C03-1, F-C04-3, F-C02-2 and F-C02-3 are fixed (bb96d233, 43d7eca0, "
            "02d8de59, 7be8c4c6): their scenarios stay in the corpus and fail the check if the behaviour returns; the old behaviour is kept "
            "as pinned_sync_stuck_after_parent_side_revocation / pinned_sync_alternates_with_non_injective_mapping. Replayed on the real "
            "code and still open (corpus/system-findings/c02-*.ops; no oracle of the lock-step run fires on them, the non-convergence is the "
            "finding): a parent-side re-issue the child never notices (sync_misses_parent_side_reissue), an open request for a class the "
            "parent has lost (sync_stuck_with_request_for_lost_class - a krill parent answers with an error, never 1201/1202, the child "
            "keeps the request for ever), and the residuals of the two fixes (a class created after a mapping under the mapped name; a "
            "child removed and re-added during its key roll). rpki-rs resource arithmetic, real "
            "certificates and the wall clock are outside the model.",
    "technique": "Lean 4 proof (invariants by induction over command histories, finite abstraction + decide, concrete counter-examples) "
                 "+ source translator (bodies of CertifiedKey::wants_update and of the keys_for_requests part of KeyState::append_entitlement_events = the model: gen_wants_update_eq_model, gen_keys_for_requests_eq_model; the four mutators of ChildCertificates and its is_empty = the model: gen_add_issued_certificate_eq_model, gen_unsuspend_certificate_eq_model, gen_suspend_certificate_eq_model, gen_remove_revoked_key_eq_model, gen_is_empty_iff) + correspondence check",
}
