"""C02 — Delegation follows entitlements, never over-claims, converges and is idempotent."""
import sys
from pathlib import Path
sys.path.insert(0, str(Path(__file__).resolve().parent))
import ca_common

ASSUMPTIONS = [
    "resources are sets of atoms (AS + IPv4 /16 + IPv6 /48 triples); rpki-rs block arithmetic is assumed to satisfy the set laws",
    "a request limit is empty or one atom set for all three families; the system harness only produces empty limits",
    "wants_update: the f64 ratio tests are restated in integer arithmetic (equivalent for |seconds| < 2^45)",
    "sync_converges_partial is about the class's key-state machine (Ca/KeySync.lean) against a parent that answers every request "
    "with a certificate for the offered resources, fixed clock; its tie to the two-aggregate exchange is the lock-step run",
    "shrink_active_child_partial assumes a class without stale suspended entries (what F-C02-1 breaks) and a duplicate-free issued map; "
    "shrink_active_child_quiet_partial proves both for every history in which no certificate is issued for a key that still has a "
    "suspended entry (no unsuspension of a suspended child); the link from an active child's key in use to the issued map "
    "additionally needs that no two children share a key (not proved; the oracle ActiveChildHasCert checks it on the implementation)",
    "HashMap iteration order is arbitrary: the model visits entries in insertion order, the driver compares sorted",
]


def check(ctx):
    return ca_common.run(ctx, "KrillModel.Props.C02", "C02", ASSUMPTIONS)


def replay(ctx, data):
    return ca_common.replay(ctx, data, "KrillModel.Props.C02", "C02")


MANIFEST = {
    "text": "Lean 4 theorems over a model of certificate issuance (issuer certificate ∩ child entitlement, limit applied, containment "
            "checked), the issued/suspended maps with the exact insert/remove behaviour of child.rs, shrink_overclaiming, activate_key, "
            "wants_update, the entitlement events and the whole CertAuth command processing around them: issued certificates are exactly "
            "limit(issuer ∩ entitlement) (issued_exact); in every state reachable by any command history no issued child certificate "
            "exceeds the current key's certificate, and the command that receives a smaller certificate or activates a new key restores "
            "that itself (never_overclaims, shrink_in_same_command, activation_keeps_containment); the exact effect of the shrink on a "
            "class without stale entries (shrink_active_child_partial), which every class is in histories without an unsuspension of a "
            "suspended child (quiet_classes_tidy, shrink_active_child_quiet_partial, unbounded); the stale suspended entry left by unsuspension makes a later "
            "shrink withdraw an active child's certificate and can leave an orphan certificate published that over-claims after the next "
            "shrink (not_shrink_active_child, not_never_overclaims_published: concrete witnesses, replayed, F-C02-1); a converged child's "
            "sync emits no event and changes nothing (sync_idempotent, for every state); every well-formed key state converges within two "
            "rounds and two syncs to one key with exactly the offered resources and no open request (sync_converges_partial). Tied to "
            "the code by lock-step execution against an in-process krill and by the theorem predicates evaluated on the "
            "implementation's own state",
    "note": "Kernel-checked theorems are about the model. shrink_active_child and the published level of never_overclaims are false on "
            "this tree (F-C02-1, recorded with two replays); sync_converges is proved on the class key-state machine, not on the "
            "two-aggregate exchange; F-C03-1 makes syncs non-idempotent under a class-name mapping (recorded). rpki-rs resource arithmetic, "
            "real certificates and the wall clock are outside the model.",
    "technique": "Lean 4 proof (invariants by induction over command histories, finite abstraction + decide, concrete counter-examples) "
                 "+ correspondence check",
}
