"""C02 — Delegation follows entitlements, never over-claims, converges and is idempotent."""
import sys
from pathlib import Path
sys.path.insert(0, str(Path(__file__).resolve().parent))
import ca_common

ASSUMPTIONS = [
    "resources are sets of atoms (AS + IPv4 /16 + IPv6 /48 triples); rpki-rs block arithmetic is assumed to satisfy the set laws",
    "a request limit is empty or one atom set for all three families; the system harness only produces empty limits (an op for "
    "limits is not planned: it needs a crafted CSR exchange), so applyLimit is exercised by the theorems only",
    "wants_update: the f64 ratio tests are restated in integer arithmetic (equivalent for |seconds| < 2^45)",
    "sync_converges_partial is about the class's key-state machine (Ca/KeySync.lean) against a parent that answers every request "
    "with a certificate for the offered resources, fixed clock; its tie to the two-aggregate exchange is the lock-step run",
    "shrink_active_child is about the class: every issued certificate is kept, narrowed or removed exactly as the intersection "
    "demands, in every reachable state; the link from 'key in use by an active child' to 'issued in the class' additionally needs "
    "that no two children present the same key (model corner shown as an example; the oracle ActiveChildHasCert checks the "
    "state-level predicate on the implementation)",
    "pinned_* theorems are counter-models of the tree before fix bb96d233 (the old add_issued_certificate kept as a separate "
    "definition); they say nothing about the current tree",
    "HashMap iteration order is arbitrary: the model visits entries in insertion order, the driver compares sorted",
]


def check(ctx):
    return ca_common.run(ctx, "KrillModel.Props.C02", "C02", ASSUMPTIONS)


def replay(ctx, data):
    return ca_common.replay(ctx, data, "KrillModel.Props.C02", "C02")


MANIFEST = {
    "text": "Lean 4 theorems over a model of certificate issuance (issuer certificate ∩ child entitlement, limit applied, containment "
            "checked), the issued/suspended maps with the exact insert/remove behaviour of child.rs, shrink_overclaiming, activate_key, "
            "wants_update, the entitlement events and the whole CertAuth command processing around them: issued certificates are exactly "
            "limit(issuer ∩ entitlement) (issued_exact); in every state reachable by any command history no issued child certificate "
            "exceeds the current key's certificate, and the command that receives a smaller certificate or activates a new key restores "
            "that itself (never_overclaims, shrink_in_same_command, activation_keeps_containment); in every reachable state no key is "
            "both issued and suspended (classes_tidy) and the shrink keeps, narrows or removes each issued certificate exactly as the "
            "intersection demands, whatever the suspension history (shrink_active_child, unbounded; since fix bb96d233 - the pinned "
            "tree's stale entry, the withdrawn certificate of an active child and the orphan left published are kept as "
            "pinned_add_issued_leaves_stale_entry, pinned_shrink_withdraws_active_child, pinned_shrink_orphans_certificate); a converged child's "
            "sync emits no event and changes nothing (sync_idempotent, for every state); every well-formed key state converges within two "
            "rounds and two syncs to one key with exactly the offered resources and no open request (sync_converges_partial). Tied to "
            "the code by lock-step execution against an in-process krill and by the theorem predicates evaluated on the "
            "implementation's own state",
    "note": "Kernel-checked theorems are about the model. The published level of never_overclaims is evaluated by the oracle "
            "(NoOverclaimPublished) and rests on C01's objects_mirror; sync_converges is proved on the class key-state machine, not on "
            "the two-aggregate exchange. F-C02-1 and F-C03-1 are fixed (bb96d233, 43d7eca0): their scenarios stay in the corpus and "
            "fail the check if the behaviour returns. Open: F-C04-3 (a mapping to a class the parent does not have can shadow the class "
            "a child is certified under; its syncs then never become idempotent). rpki-rs resource arithmetic, real certificates and "
            "the wall clock are outside the model.",
    "technique": "Lean 4 proof (invariants by induction over command histories, finite abstraction + decide, concrete counter-examples) "
                 "+ correspondence check",
}
