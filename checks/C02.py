"""C02 — Delegation follows entitlements, never over-claims, converges and is idempotent."""
import sys
from pathlib import Path
sys.path.insert(0, str(Path(__file__).resolve().parent))
import ca_common

ASSUMPTIONS = [
    "resources are sets of atoms (AS + IPv4 /16 + IPv6 /48 triples); rpki-rs block arithmetic is assumed to satisfy the set laws",
    "a request limit is empty or one atom set for all three families; the system harness only produces empty limits",
    "wants_update: the f64 ratio tests are restated in integer arithmetic (equivalent for |seconds| < 2^45)",
    "sync_converges / sync_idempotent: fixed clock during the rounds, parent and child exchange messages without loss",
    "HashMap iteration order is arbitrary: the model visits entries in insertion order, the driver compares sorted",
]


def check(ctx):
    return ca_common.run(ctx, "KrillModel.Props.C02", "C02", ASSUMPTIONS)


def replay(ctx, data):
    return ca_common.replay(ctx, data, "KrillModel.Props.C02", "C02")


MANIFEST = {
    "text": "Lean 4 theorems over a model of certificate issuance (issuer certificate ∩ child entitlement, limit applied, "
            "containment checked), the issued/suspended maps with the exact insert/remove behaviour of child.rs, the shrink of "
            "over-claiming child certificates in the command that receives a smaller certificate, wants_update and the entitlement "
            "events, and the sync driver: issued certificates are exactly limit(issuer ∩ entitlement), no issued certificate ever "
            "exceeds the issuing key's certificate in any history, the stale suspended entry left by unsuspension makes a later shrink "
            "withdraw an active child's certificate (negation proved, replayed), syncs converge and a further sync emits nothing; "
            "tied to the code by lock-step execution against an in-process krill and by the theorem predicates evaluated on the "
            "implementation's own state",
    "note": "Kernel-checked theorems are about the model. shrink_active_child is false on this tree (F-C02-1, recorded); the published "
            "level of never_overclaims is proved for histories without unsuspension. rpki-rs resource arithmetic, real certificates "
            "and the wall clock are outside the model.",
    "technique": "Lean 4 proof (invariants by induction over command histories, concrete counter-example by decide) + correspondence check",
}
