"""C06 — State rebuilt from the audit log equals the live state."""
import concurrent.futures
import os
import re
import shutil
import subprocess
from pathlib import Path
import vlib

RULE = ("stream aggstore (sequential + --real for krill's own RepositoryAccess aggregate): seeded histories (create, accepted / rejected / no-op / vetoed commands, failed "
        "writes, reads, snapshots at random points, store objects re-created = cache drops, delete + re-create, history "
        "queries) against the real AggregateStore<Reg> (init version 1 and 0) and WalStore<Bag> through several store "
        "objects on the memory and disk back-ends; after each history and at random points a FRESH store on the same "
        "storage and a store over a copy holding only the command-N keys are compared with every live store object; the "
        "Lean model runs in lock-step on result + stored keys + stored records + snapshot; distinct_nontrivial counts "
        "distinct (op kind, model branch) pairs; serde round trip (from_value(to_value x) = x, twice, and through text) of every "
        "registered stored command / event / change form in its boundary shapes (op `serde <type> <shape>`); streams system + proto, "
        "corpora system-c06cov / proto-c06cov: every storable command kind of every aggregate in every stored shape the reviewed "
        "table ES/CommandCoverage.lean claims, each followed by reloadcheck / sreload (fresh store object = commands alone = live), "
        "the claims verified against the stored-command observations of the run")


def private_kmodel(ctx):
    """The driver of this stream is also linked stand-alone (lean_exe `kagg`, same code as `kmodel aggstore`) so that the
    check does not depend on every other stream's driver building; work on a copy taken under the lake lock."""
    dst = ctx.work / "kagg"
    with vlib.Lock("lake"):
        shutil.copy2(vlib.LEAN / ".lake/build/bin/kagg", dst)
    vlib.KMODEL = dst


def sig(case, idx, verdict):
    op = case["ops"][idx][0].split()
    if verdict.startswith("FAIL oracle"):
        preds = ",".join(sorted(set(verdict.split()[2:])))
        return f"oracle:{preds}:{op[0]}"
    return f"model:{op[0]}"


def sig_sys(case, idx, verdict):
    op = case["ops"][idx][0].split()
    w = verdict.split()
    if verdict.startswith("FAIL oracle"):
        return "oracle:" + ":".join(w[2:5]) + ":" + op[0]
    return f"model:sysreload:{op[0]}"


# ---------------------------------------------------------------- coverage of the stored command kinds

COVER_CORPORA = [("system", "system-c06", ["rp=0", "profile=reload", "obs=min"]),
                 ("system", "system-c06cov", ["rp=0", "obs=min"]),
                 ("proto", "proto-c06cov", [])]


def corpus_traces_parallel(ctx, jobs):
    """jobs: [(harness bin, corpus dir name, extra args)]; every .ops file of the corpora is run by its own harness
    process, all at the same time (a case of these streams costs seconds). Returns [(harness bin, corpus, trace path)]."""
    todo = []
    for hb, corpus, extra in jobs:
        for f in sorted((vlib.VERIF / "corpus" / corpus).glob("*.ops")):
            tr = ctx.work / f"corpus-{corpus}-{f.stem}.trace"
            todo.append((hb, corpus, f, tr, [vlib.hbin(hb), "--ops", str(f), "--out", str(tr)] + list(extra)))
    out = []
    def one(job):
        r = vlib.run(job[4], timeout=3600)
        return job, r
    with concurrent.futures.ThreadPoolExecutor(max_workers=max(1, len(todo))) as ex:
        for (hb, corpus, f, tr, _), r in ex.map(one, todo):
            if r.returncode != 0:
                ctx.log(f"harness failed on corpus {f}: {r.stdout[-1500:]}")
                vlib.report_violation(ctx, "harness-crash", {"corpus": str(f), "output": r.stdout[-3000:]},
                                      signature=f"crash:{hb}:corpus")
                continue
            out.append((hb, corpus, tr))
    return out


def cover_tags(ctx, trace):
    """The (aggregate/variant/shape@op) tags and the event kinds the stored-command observations of a trace show
    (driver `sysreload` in its coverage mode: shapes are decided from Generated/CommandKinds.lean)."""
    env = dict(os.environ, KVERIF_C06_COVER="tags")
    with open(trace) as fi:
        r = subprocess.run([str(vlib.KMODEL), "sysreload"], stdin=fi, stdout=subprocess.PIPE, stderr=subprocess.PIPE, text=True, env=env)
    tags = set()
    for line in r.stdout.splitlines():
        if line.startswith("ok cover"):
            tags.update(line.split()[2:])
    return tags


def coverage_claims(ctx):
    """What ES/CommandCoverage.lean claims (printed by the driver from the compiled table)."""
    env = dict(os.environ, KVERIF_C06_COVER="claims")
    r = subprocess.run([str(vlib.KMODEL), "sysreload"], stdin=subprocess.DEVNULL, stdout=subprocess.PIPE, stderr=subprocess.PIPE, text=True, env=env)
    claims, uncovered, excused, via = [], [], [], {}
    for line in r.stdout.splitlines():
        w = line.split(None, 3)
        if w[0] == "claim":
            claims.append((w[1], w[2]))
        elif w[0] == "uncovered":
            uncovered.append({"kind": w[1], "reason": w[2], "why": w[3] if len(w) > 3 else ""})
        elif w[0] == "excused":
            excused.append({"shape": w[1], "why": line.split(None, 2)[2]})
        elif w[0] == "via":
            via[w[1]] = w[2]
    return claims, uncovered, excused, via


def verify_coverage(ctx, traces):
    """Every claim of the coverage table must have occurred in the stored-command observations of this run, under the
    op it names: obligation `coverage-claimed-but-not-exercised:<aggregate>/<variant>/<shape>` otherwise."""
    seen = {}
    for hb, corpus, tr in traces:
        seen.setdefault(hb, set()).update(cover_tags(ctx, tr))
    claims, uncovered, excused, via = coverage_claims(ctx)
    if not claims:
        ctx.failed_obligations.append("coverage-table-unreadable")
    missing = []
    for stream, tag in claims:
        if tag not in seen.get(stream, set()):
            missing.append((stream, tag))
    for stream, tag in missing:
        kind = tag.split("@")[0]
        ctx.failed_obligations.append(f"coverage-claimed-but-not-exercised:{kind}")
        ctx.log(f"coverage claim not exercised: stream {stream}: {tag}")
    allseen = set().union(*seen.values()) if seen else set()
    kinds = sorted({t.split("@")[0].rsplit("/", 1)[0] for t in allseen if not t.startswith("ev:")})
    events = sorted({t[3:] for t in allseen if t.startswith("ev:")})
    ctx.obligations.append("coverage-claims-exercised")
    return {
        "command_kind_coverage": {
            "claims": len(claims), "claims_not_exercised": [f"{s}:{t}" for s, t in missing],
            "command_kinds_stored_in_this_run": kinds, "event_kinds_stored_in_this_run": events,
            "not_executed_with_reason": uncovered, "shapes_excused": excused,
            "not_reachable_in_daemon_executed_through": {k: v for k, v in via.items() if v != "daemon"},
        }
    }


def check(ctx):
    # the stored forms of every event-sourced aggregate, regenerated from /repo/src (theorems all_command_kinds_covered,
    # serde_attrs_reviewed over it)
    # command_kinds: the stored forms; pure_fns:C06: the body of Aggregate::apply_command (the provided trait method every entity
    # is replayed with) regenerated as a Lean definition, proved equal to the model's applyStored in Props/C06SrcFns.lean
    vlib.translate(ctx, [("command_kinds", "CommandKinds.lean"), ("pure_fns:C06", "PureFnsC06.lean")])
    vlib.prove(ctx, ["KrillModel.Props.C06", "KrillModel.Props.C06Src", "KrillModel.Props.C06SrcFns"], extra_targets=("kagg", "kmodel"))
    found = False
    private_kmodel(ctx)
    if vlib.build_harness(ctx, ["aggstore"]):
        n, length = (1200, 15) if ctx.tier == "quick" else (40000, 30)
        found = vlib.generic_stateful_stream(ctx, "aggstore", "aggstore C06", n, length, sig)
        # the same fresh-store / from-scratch comparison for a real krill aggregate (RepositoryAccess)
        n, length = (16, 10) if ctx.tier == "quick" else (150, 16)
        found |= vlib.generic_stateful_stream(ctx, "aggstore", "aggstore C06", n, length, sig,
                                              extra_args=["--real"], corpus="aggstore-real")
    else:
        ctx.failed_obligations.append("harness-build")
    # krill's real aggregates (CertAuth, TA proxy and signer) inside a whole in-process krill: system
    # stream op `reloadcheck [snap]` = live state vs fresh store object (latest snapshot + later
    # commands) vs replay of the stored commands alone; `history` = listed vs stored commands
    with vlib.Lock("lake"):
        shutil.copy2(vlib.LEAN / ".lake/build/bin/kmodel", ctx.work / "kmodel")
    vlib.KMODEL = ctx.work / "kmodel"
    extra_cov = None
    if vlib.build_harness(ctx, ["system", "proto"]):
        args = ["rp=0", "profile=reload", "obs=min"]
        # corpora (all files at once): past failures, and the coverage cases - every storable command kind of every
        # aggregate in every claimed shape, each followed by the fresh-store / commands-alone comparison
        ctraces = corpus_traces_parallel(ctx, COVER_CORPORA)
        n, length = (12, 18) if ctx.tier == "quick" else (240, 30)
        traces = [tr for hb, _, tr in ctraces if hb == "system"] + vlib.parallel_traces(ctx, "system", n, length, extra_args=args)
        found |= vlib.judge_traces(ctx, "system", "sysreload", traces, sig_sys)
        found |= vlib.judge_traces(ctx, "proto", "sysreload", [tr for hb, _, tr in ctraces if hb == "proto"], sig_sys)
        # the claims of ES/CommandCoverage.lean against what the coverage cases really stored
        extra_cov = verify_coverage(ctx, [t for t in ctraces if t[1].endswith("cov")])
    else:
        ctx.failed_obligations.append("harness-build")
    # a known finding is not a failing input for a broken obligation
    vlib.obligations_broken(ctx, bool(ctx.violations))
    ctx.assumptions += [
        "the aggregate is abstract in the theorems (init/process/apply/pre-save listener); the stream instantiates it with a "
        "test aggregate implementing krill's public Aggregate / WalSupport traits; the real RepositoryAccess aggregate gets the same "
        "fresh-store / from-scratch comparison here (--real); CertAuth and the TA proxy/signer get it inside a whole in-process krill "
        "(system stream op reloadcheck, driver sysreload: live vs snapshot+later commands vs commands alone, serde JSON of the whole "
        "aggregate minus the two wall-clock fields last_key_change / since; history listing vs stored commands); RepositoryContent "
        "(WAL) is compared by the pubd stream of C10/C11 across restarts",
        "initVersion <= 1 (1 for CertAuth, RepositoryAccess, TA proxy/signer; 0 for SignerInfo)",
        "drop_aggregate / WalStore::remove / WalStore::add clear only the calling store object's cache (modelled); histories use them "
        "only when no other long-lived store object caches the entity, as krill does",
        "WalStore: update_snapshot deletes every wal-N key, so a store object whose cache is older than the snapshot cannot catch "
        "up (wal_snapshot_needs_current_caches); theorem and generator assume the other store objects are current (SafeRun), as in krill "
        "where the only writer is the one long-lived store object",
        "failed writes: disk = value writes fail with an I/O error (.tmp directory removed), memory = the back-end's cfg-gated fault point",
        "time stamps of stored commands are not compared",
        "coverage of the stored command kinds: Generated/CommandKinds.lean (translator command_kinds) lists every variant of every "
        "storable command / write-ahead-log change enum with its fields, shape classes and serde attributes; ES/CommandCoverage.lean "
        "(hand-written, theorem all_command_kinds_covered demands equal field lists) names the op that stores each kind in each shape "
        "or the reason why none does; the claims are checked against the traces of every run (coverage-claimed-but-not-exercised); "
        "shapes = Option fields absent/present and collection fields empty/non-empty down to four path components through krill's own "
        "structs - enum-valued fields and third-party types (rpki-rs) are leaves; the rows not executed are listed in the evidence "
        "(command_kind_coverage.not_executed_with_reason)",
        "serde_attrs_reviewed: skip_serializing_if needs default (or a plain Option field) on every field of every struct / enum reachable "
        "from the stored enums by type name; hand-written Serialize / Deserialize impls are only sampled (serde ops)",
        "lists the publication server builds from hash maps when a change is applied (elements of an RRDP delta, current files) are "
        "compared as multisets between the running and the freshly loaded content",
    ]
    return vlib.finish(ctx, "proof", RULE, extra_cov=extra_cov)


def replay(ctx, data):
    harness = data.get("harness", "aggstore")
    vlib.build_harness(ctx, [harness])
    vlib.prove(ctx, ["KrillModel.Props.C06"], extra_targets=("kagg", "kmodel") if harness != "aggstore" else ("kagg",))
    c = vlib.exec_ops(ctx, data.get("harness", "aggstore"), data.get("stream", "aggstore C06"), data.get("case", "replay"),
                      data["ops"], "replay")
    for t, v in c["ops"]:
        print(f"{vlib.strip_obs(t) if len(t) > 400 else t}  ## {v}")
    ff = vlib.first_failure(c)
    if ff or c.get("crash"):
        print(f"VIOLATION property={ctx.pid} replay={ctx.work}/replay.ops")
        return 1
    print("replay: no failure")
    ctx.cleanup()
    return 0


MANIFEST = {
    "text": "Lean 4 theorems over a step-by-step model of AggregateStore::execute_opt_command / add / history and WalStore, generic over "
            "an abstract aggregate: for every history (accepted, rejected, no-op, vetoed commands, failed writes, snapshots at any point, "
            "cache drops, several store objects) the entity refines its audit log (invariant Inv), hence replay from command-0 alone = "
            "snapshot + later commands = what every live store object returns = pure replay of the log (replay_eq_live, "
            "snapshot_any_point); replaying a stored history never panics because events are applied before the command is stored "
            "(replay_total); no call panics if process only emits applicable events (no_panic_of_applicable); WAL store: fresh load = "
            "live value (wal_replay_eq_live) with the needed side condition proved necessary by a witness. Tie: lock-step differential "
            "execution of the model against the real stores on both back-ends + the theorem predicates evaluated on the implementation's trace.",
    "note": "Theorems are about the model with an abstract aggregate; the lock-step correspondence uses a test aggregate (public traits) and "
            "RepositoryAccess; CertAuth, the TA aggregates, the publication server's access and content aggregates and the signer-info aggregate are tied by the reloadcheck comparison on system / proto stream histories (seeded + corpus), and a generated table of every storable command kind with a reviewed, trace-verified coverage table (Props/C06Src.lean) makes sure every kind and stored shape is among them. Multi-store-object quirks (drop/remove/add clear one cache only, WAL truncate strands older "
            "caches) are modelled and excluded by hypothesis where krill's usage excludes them.",
    "technique": "Lean 4 proof (refinement invariant, induction over histories; instantiated with the CertAuth / TA proxy / TA signer models) + correspondence check + source translators (body of the provided trait method Aggregate::apply_command = the model's applyStored: gen_apply_command_eq_model; every storable command / event kind with fields and serde attributes; reviewed coverage table verified against the traces)",
}
