"""C06 — State rebuilt from the audit log equals the live state."""
import shutil
import vlib

RULE = ("stream aggstore (sequential + --real for krill's own RepositoryAccess aggregate): seeded histories (create, accepted / rejected / no-op / vetoed commands, failed "
        "writes, reads, snapshots at random points, store objects re-created = cache drops, delete + re-create, history "
        "queries) against the real AggregateStore<Reg> (init version 1 and 0) and WalStore<Bag> through several store "
        "objects on the memory and disk back-ends; after each history and at random points a FRESH store on the same "
        "storage and a store over a copy holding only the command-N keys are compared with every live store object; the "
        "Lean model runs in lock-step on result + stored keys + stored records + snapshot; distinct_nontrivial counts "
        "distinct (op kind, model branch) pairs")


def private_kmodel(ctx):
    """The driver of this stream is also linked stand-alone (lean_exe `kagg`, same code as `kmodel aggstore`) so that the
    check does not depend on every other stream's driver building; work on a copy taken under the lake lock."""
    dst = ctx.work / "kagg"
    with vlib.Lock("lake"):
        shutil.copy2(vlib.LEAN / ".lake/build/bin/kagg", dst)
    vlib.KMODEL = dst


def sig(case, idx, verdict):
    op = case["ops"][idx][0].split()
    if verdict.startswith("FAIL oracle"):
        preds = ",".join(sorted(set(verdict.split()[2:])))
        return f"oracle:{preds}:{op[0]}"
    return f"model:{op[0]}"


def sig_sys(case, idx, verdict):
    op = case["ops"][idx][0].split()
    w = verdict.split()
    if verdict.startswith("FAIL oracle"):
        return "oracle:" + ":".join(w[2:5]) + ":" + op[0]
    return f"model:sysreload:{op[0]}"


def check(ctx):
    vlib.prove(ctx, ["KrillModel.Props.C06"], extra_targets=("kagg", "kmodel"))
    found = False
    private_kmodel(ctx)
    if vlib.build_harness(ctx, ["aggstore"]):
        n, length = (1200, 15) if ctx.tier == "quick" else (40000, 30)
        found = vlib.generic_stateful_stream(ctx, "aggstore", "aggstore C06", n, length, sig)
        # the same fresh-store / from-scratch comparison for a real krill aggregate (RepositoryAccess)
        n, length = (16, 10) if ctx.tier == "quick" else (150, 16)
        found |= vlib.generic_stateful_stream(ctx, "aggstore", "aggstore C06", n, length, sig,
                                              extra_args=["--real"], corpus="aggstore-real")
    else:
        ctx.failed_obligations.append("harness-build")
    # krill's real aggregates (CertAuth, TA proxy and signer) inside a whole in-process krill: system
    # stream op `reloadcheck [snap]` = live state vs fresh store object (latest snapshot + later
    # commands) vs replay of the stored commands alone; `history` = listed vs stored commands
    with vlib.Lock("lake"):
        shutil.copy2(vlib.LEAN / ".lake/build/bin/kmodel", ctx.work / "kmodel")
    vlib.KMODEL = ctx.work / "kmodel"
    if vlib.build_harness(ctx, ["system"]):
        args = ["rp=0", "profile=reload", "obs=min"]
        traces = vlib.corpus_traces(ctx, "system", corpus="system-c06", extra_args=args)
        n, length = (12, 18) if ctx.tier == "quick" else (240, 30)
        traces += vlib.parallel_traces(ctx, "system", n, length, extra_args=args)
        found |= vlib.judge_traces(ctx, "system", "sysreload", traces, sig_sys)
    else:
        ctx.failed_obligations.append("harness-build")
    # a known finding is not a failing input for a broken obligation
    vlib.obligations_broken(ctx, bool(ctx.violations))
    ctx.assumptions += [
        "the aggregate is abstract in the theorems (init/process/apply/pre-save listener); the stream instantiates it with a "
        "test aggregate implementing krill's public Aggregate / WalSupport traits; the real RepositoryAccess aggregate gets the same "
        "fresh-store / from-scratch comparison here (--real); CertAuth and the TA proxy/signer get it inside a whole in-process krill "
        "(system stream op reloadcheck, driver sysreload: live vs snapshot+later commands vs commands alone, serde JSON of the whole "
        "aggregate minus the two wall-clock fields last_key_change / since; history listing vs stored commands); RepositoryContent "
        "(WAL) is compared by the pubd stream of C10/C11 across restarts",
        "initVersion <= 1 (1 for CertAuth, RepositoryAccess, TA proxy/signer; 0 for SignerInfo)",
        "drop_aggregate / WalStore::remove / WalStore::add clear only the calling store object's cache (modelled); histories use them "
        "only when no other long-lived store object caches the entity, as krill does",
        "WalStore: update_snapshot deletes every wal-N key, so a store object whose cache is older than the snapshot cannot catch "
        "up (wal_snapshot_needs_current_caches); theorem and generator assume the other store objects are current (SafeRun), as in krill "
        "where the only writer is the one long-lived store object",
        "failed writes: disk = value writes fail with an I/O error (.tmp directory removed), memory = the back-end's cfg-gated fault point",
        "time stamps of stored commands are not compared",
    ]
    return vlib.finish(ctx, "proof", RULE)


def replay(ctx, data):
    vlib.build_harness(ctx, ["aggstore"])
    vlib.prove(ctx, ["KrillModel.Props.C06"], extra_targets=("kagg",))
    c = vlib.exec_ops(ctx, data.get("harness", "aggstore"), data.get("stream", "aggstore C06"), data.get("case", "replay"),
                      data["ops"], "replay")
    for t, v in c["ops"]:
        print(f"{vlib.strip_obs(t) if len(t) > 400 else t}  ## {v}")
    ff = vlib.first_failure(c)
    if ff or c.get("crash"):
        print(f"VIOLATION property={ctx.pid} replay={ctx.work}/replay.ops")
        return 1
    print("replay: no failure")
    ctx.cleanup()
    return 0


MANIFEST = {
    "text": "Lean 4 theorems over a step-by-step model of AggregateStore::execute_opt_command / add / history and WalStore, generic over "
            "an abstract aggregate: for every history (accepted, rejected, no-op, vetoed commands, failed writes, snapshots at any point, "
            "cache drops, several store objects) the entity refines its audit log (invariant Inv), hence replay from command-0 alone = "
            "snapshot + later commands = what every live store object returns = pure replay of the log (replay_eq_live, "
            "snapshot_any_point); replaying a stored history never panics because events are applied before the command is stored "
            "(replay_total); no call panics if process only emits applicable events (no_panic_of_applicable); WAL store: fresh load = "
            "live value (wal_replay_eq_live) with the needed side condition proved necessary by a witness. Tie: lock-step differential "
            "execution of the model against the real stores on both back-ends + the theorem predicates evaluated on the implementation's trace.",
    "note": "Theorems are about the model with an abstract aggregate; the lock-step correspondence uses a test aggregate (public traits) and "
            "RepositoryAccess; CertAuth and the TA aggregates are tied by the reloadcheck comparison on system-stream histories (seeded + corpus). Multi-store-object quirks (drop/remove/add clear one cache only, WAL truncate strands older "
            "caches) are modelled and excluded by hypothesis where krill's usage excludes them.",
    "technique": "Lean 4 proof (refinement invariant, induction over histories) + correspondence check",
}
