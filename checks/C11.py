"""C11 — RRDP and rsync views are consistent for every client at every instant."""
import importlib.util
import vlib

_spec = importlib.util.spec_from_file_location("checks_pubd_common", vlib.VERIF / "checks" / "_pubd.py")
common = importlib.util.module_from_spec(_spec)
_spec.loader.exec_module(common)

RULE = ("stream pubd (C11 mix): seeded request sequences against the real RepositoryManager (publish, RRDP update, session "
        "reset, delete-matching-files, write_repository) under retention configurations around the bounds (min_nr/max_nr in "
        "{(5,50),(0,1),(0,2),(1,2),(0,3),(1,3),(2,3),(5,2),(1,1),(0,50),(2,2)}, min/max seconds 0 or huge, max_nr 0 in the "
        "thorough tier), with a fault point armed at the k-th file-system mutation (cuts at random k and scans over every k of "
        "one write, each followed by a retry on a copy of the files); per op the mutation log is read against the model's plan "
        "(ordered and unordered phases), the files under repo_dir/rrdp and repo_dir/rsync are parsed with rpki-rs (notification, "
        "snapshot, deltas, hashes) and compared with the model's file system, and a simulated client that remembers every "
        "snapshot it saw catches up from each of them; distinct_nontrivial counts distinct (op kind, model branch) pairs, the "
        "branch of a write names truncation, number of files written, what the rsync directory held and where it was cut")


WRITER_ORACLES = ("rrdp_serials_monotone", "rrdp_files_current")


def concurrent_writers(ctx):
    """"Serials grow by one per update" judged on the FILES while several writers are at work: the corpus scenario
    conc/rrdp-writers (request threads publishing and calling the RRDP update beside the scheduler's own update task) through
    the conc harness; only the two file-level clauses of C11 are judged here (snapshots reach the disk in serial order; once
    idle the notification on disk is at the publication server's serial) - the rest of such a run is C18's."""
    import json
    from pathlib import Path
    found = False
    f = vlib.VERIF / "corpus" / "conc" / "rrdp-writers.ops"
    if not f.exists():
        return False
    reps = 4 if ctx.tier == "quick" else 12
    for i in range(reps):
        tr = ctx.work / f"writers-{i}.trace"
        r = vlib.run([vlib.hbin("conc"), "--ops", str(f), "--out", str(tr), "--seed", str(int(ctx.seed) + i)], timeout=3600)
        if r.returncode != 0:
            ctx.log(f"conc harness failed on rrdp-writers: {r.stdout[-1500:]}")
            vlib.report_violation(ctx, "harness-crash", {"harness": "conc", "output": r.stdout[-3000:]}, signature="crash:conc:writers")
            return True
        vf = Path(str(tr) + ".verdict")
        if not vlib.run_model(ctx, "conc", tr, vf):
            vlib.report_violation(ctx, "model-driver-crash", {"stream": "conc"}, found_input=False)
            continue
        cases = vlib.parse_cases(tr, vf)
        if cases is None:
            vlib.report_violation(ctx, "model-driver-desync", {"stream": "conc"}, found_input=False)
            continue
        vlib.histogram(ctx, cases)
        ctx.traces_validated += len(cases)
        for c in cases:
            for idx, (t, v) in enumerate(c["ops"]):
                hit = [o for o in WRITER_ORACLES if o in v]
                if hit and not found:
                    found = True
                    vlib.report_violation(ctx, "implementation-vs-oracle", {
                        "stream": "conc", "harness": "conc", "case": c["id"],
                        "ops": [vlib.strip_obs(x) for x, _ in c["ops"][: idx + 1]],
                        "verdict": "FAIL oracle " + " ".join(hit),
                        "replay_cmd": f"./check {ctx.pid} --replay <this file> (a race: the replay repeats the scenario)",
                    }, signature="oracle:" + ",".join(hit) + ":writers")
    return found


def check(ctx):
    # body of RrdpServer::find_deltas_truncate_age regenerated from the source; C11Src: generated definition = model function
    vlib.translate(ctx, [("pure_fns:C11", "PureFnsC11.lean")])
    vlib.prove(ctx, ["KrillModel.Props.C11", "KrillModel.Props.C11Src"])
    found = False
    if vlib.build_harness(ctx, ["pubd", "conc"]):
        jobs, n, length = (8, 30, 12) if ctx.tier == "quick" else (12, 600, 16)
        found = common.run(ctx, "C11", jobs, n, length)
        found = concurrent_writers(ctx) or found
    else:
        ctx.failed_obligations.append("harness-build")
    vlib.obligations_broken(ctx, found)
    ctx.assumptions += [
        "clock: younger_than/older_than answers are inputs of the model; the implementation is run in regimes where they are "
        "constant (0 or 10^9 seconds); theorems quantify over all answers",
        "file system: files keyed by path, atomic rename, rename onto a non-empty directory fails, files truncated when "
        "created (commons::file since fix 4ab08295; the non-truncating behaviour of the pinned tree is kept in the Pinned "
        "definitions for the counter-models); torn writes inside one file are not modelled (such files are not yet named "
        "by the notification)",
        "cut points are enumerated on the implementation per generated write (fault hook before every mutation); for all "
        "writes they are covered by the theorems over the model's mutation plans",
        "a client compares URIs like rpki-rs (scheme and authority case-insensitively)",
        "rrdp_files_archive = false",
    ]
    return vlib.finish(ctx, "proof", RULE)


def replay(ctx, data):
    if data.get("harness") == "conc":
        # a race between writers: repeat the scenario a few times
        vlib.build_harness(ctx, ["conc"])
        vlib.prove(ctx, ["KrillModel.Props.C11"])
        f = ctx.work / "replay.ops"
        f.write_text("case " + data.get("case", "replay-disk") + "\n" + "\n".join(o for o in data["ops"] if not o.startswith("concrun")) + "\n")
        from pathlib import Path
        for i in range(6):
            tr = ctx.work / f"replay-{i}.trace"
            vlib.run([vlib.hbin("conc"), "--ops", str(f), "--out", str(tr), "--seed", str(i + 1)], timeout=3600)
            vf = Path(str(tr) + ".verdict")
            vlib.run_model(ctx, "conc", tr, vf)
            bad = [l for l in open(vf) if any(o in l for o in WRITER_ORACLES)]
            print(f"run {i}: {'FAIL ' + bad[0].strip()[:200] if bad else 'ok'}")
            if bad:
                print(f"VIOLATION property={ctx.pid} replay={f}")
                return 1
        ctx.cleanup()
        return 0
    return common.replay(ctx, "C11", data)


MANIFEST = {
    "text": "Lean 4 theorems over a model of RrdpServer (session, serial, snapshot, deltas newest first, apply_rrdp_updated with "
            "both truncations, find_deltas_truncate_age over arbitrary clock answers), of update_rrdp_files and RsyncdStore::write "
            "as plans of file-system mutations over abstract file systems (non-truncating writes, rename semantics), and of a "
            "strict RFC 8182 client: serial_plus_one, session_changes_only_on_reset, deltas_contiguous (invariant over every "
            "history), deltas_le_max (for every history under the guard min_nr + 1 <= max_nr and no young deltas; retention_bound_iff shows the "
            "guard is exact; outside it the bound is refuted by witness histories - open finding F-C11-2), snapshot_is_state, client_catches_up (from the snapshot of any earlier state of the session, by induction "
            "over the history), notification_consistent_at_every_cut (every accepted prefix of the mutation plan, clean-up in any "
            "order, nothing assumed about left-over files), rsync_equals_snapshot (on any content of the rsync directory) and "
            "rsync_write_after_any_cut (every cut); world_invariant: an inductive invariant over arbitrary histories of requests and "
            "writes interrupted at any cut, with notification_consistent_at_every_instant, rrdp_write_after_any_history and "
            "rsync_write_after_any_history as corollaries; the behaviour of the pinned tree before the fixes 5d860534, 4ab08295, 8d070115, "
            "bf93c0cb is kept as counter-models (pinned_*). Tied "
            "to the code by lock-step differential execution incl. the mutation log and the files on disk, with a fault hook "
            "that cuts a write before its k-th mutation.",
    "note": "Kernel-checked theorems are about the model. The crash half is partial by nature: cuts are enumerated on the "
            "implementation per generated write and proved for all writes on the model's plans. The wall clock is not "
            "controlled: retention by age is exercised only in clock-insensitive regimes. Concurrency of two writers "
            "(DESIGN F-C18-1) is not part of this check.",
    "technique": "Lean 4 proof (invariants over histories, prefix-closed plans, witnesses by decide) + correspondence check incl. "
                 "fault injection at file-system mutations + oracle (simulated client) on the implementation's files + source translator (body of find_deltas_truncate_age as a Lean definition, gen_find_deltas_truncate_age_eq_model; deltas_truncate_size = take (keepBySize ..): gen_deltas_truncate_size_eq_model; update_rrdp_needed characterised: gen_update_rrdp_needed_iff)",
}
