"""C13 — Every API route enforces the permission its operation requires."""
import sys
from pathlib import Path
sys.path.insert(0, str(Path(__file__).resolve().parent))
import vlib, http_common

# C13Src: the body of Role::is_allowed regenerated from the source (pure_fns) = the model function the theorems are about
MODULES = ["KrillModel.Props.C13", "KrillModel.Props.C13Src"]
TABLES = [("permissions", "Perm.lean"), ("routes", "Routes.lean"), ("pure_fns:C13", "PureFnsC13.lean")]

RULE = ("stream http: the real daemon (start_krill_daemon, in process) on a Unix socket and a private loopback TCP port, "
        "config-file auth provider; one case per role (random subsets of the 22 permissions as simple / config-file "
        "`cas` / complex roles with per-CA entries granting more or less than the blanket set, every 'all but one "
        "permission' role, built-in sets) plus no / wrong / admin-token credentials on both transports, a mapped and an "
        "unmapped socket peer, testbed on and off, admin-token provider as primary; wrong credentials are unrelated strings AND "
        "the neighbourhood of the genuine ones (admin token as legacy arm and as primary provider, a session token of the admin "
        "role): every proper prefix (sampled lengths for the long session token), one more character, more text, one character "
        "changed in front / middle / end, other letter case, white space around it (the same credential after krill's header "
        "parsing - the model says which), nothing; all of them on a sample of gated rows with a reading and a state-changing "
        "row of every /api/v1 family on both transports, one member per class (prefix, extension, changed character; thorough: "
        "all) on every row; EVERY row x method of the generated "
        "route table (GET/POST/DELETE/PUT, catch-all arms included) x CA handles with/without own entry is requested; the "
        "model predicts 401/403/405/404-by-dispatch/served from the generated gates; the CAs get a parent issue each (child "
        "removed on the testbed parent's side) so that both listing endpoints (/api/v1/cas, /api/v1/bulk/cas/issues) have "
        "content, and the set of handles shown to each role is compared with the admin's view filtered by the model; the "
        "audit actor is compared, the CA list / command counts / publishers are compared before and after refused requests; the oracle "
        "re-judges every observed answer with the hand-written specification (Spec.required) instead of the generated "
        "gates. distinct_nontrivial = distinct (endpoint family, outcome, kind of identity) triples")


def check(ctx):
    vlib.translate(ctx, TABLES)
    vlib.prove(ctx, MODULES)
    found = False
    if vlib.build_harness(ctx, ["http"]):
        found = http_common.run_stream(ctx, "c13", "c13")
    else:
        ctx.failed_obligations.append("harness-build")
    vlib.obligations_broken(ctx, found)
    ctx.assumptions += [
        "a row of the route table is identified by the path pattern the translator extracted; parameters are instantiated "
        "with values that parse (handles, ASNs, numbers)",
        "GET requests that are served are assumed not to change CA or publisher state (the effect check brackets "
        "refused requests between state digests taken around served non-GET requests)",
        "request bodies are valid for a few routes (CA creation, ROA/ASPA deltas) and `{}` elsewhere: a handler that "
        "passes its gates answers 400 there, which is told apart from 401/403/405",
        "OpenID Connect provider not modelled (needs an identity provider; no network)",
    ]
    return vlib.finish(ctx, "proof", RULE)


def replay(ctx, data):
    return http_common.replay(ctx, data, MODULES, TABLES)


MANIFEST = {
    "text": "The HTTP dispatch tree (src/daemon/http/dispatch/*.rs) is executed symbolically by a syn translator on every run into a "
            "Lean table: per path pattern x method the permission gates in source order with their resource (none / the handle "
            "parsed from a path segment), how the row ends (proceed_permitted / proceed_unchecked / proceed_raw / static / 405 / "
            "404), the server operations reached with the origin of their first argument and actor, listing filters; "
            "permission.rs/roles.rs become the Permission enum, the built-in sets and the shape of Role::is_allowed. Kernel-checked "
            "theorems: every operation reached under /api/v1 is behind a permission the hand-written specification accepts for it, "
            "on the CA segment the operation is applied to (every_op_gated, lifted to all roles and requests), everything under "
            "/api/v1 needs the general login grant, rows without gates are exactly the public endpoint families and use only the "
            "operations allowed there, a request is served iff every accumulated gate allows it and otherwise answers 401/403 "
            "with no server call (all roles = all permission subsets with arbitrary per-CA entries), per-CA entry overrides the "
            "blanket grant in both directions, listings show exactly the readable CAs, built-in sets ordered and read-only free "
            "of mutating permissions; wrong_credentials_refused: every bearer string that is not a genuine credential (Genuine: the admin "
            "token verbatim or a session sealed under the own key - so also every near miss of one) is worth exactly no credentials and "
            "is refused on every gated row with no server call, for both provider configurations. Tie: the real daemon answers every row x method x role / credential; status class, listings, "
            "audit actor and absence of effects are compared with the model and judged by the specification-based oracle.",
    "note": "Theorems are about the generated table and the hand-written role/serve model; the translator and the model are tied to "
            "the code by asking the real daemon every row of the table (a row the translator misread shows up as an unpredicted "
            "status). The specification Spec.required (which permission an operation needs) is hand-written from the property text "
            "and permission names; it is the trusted statement of intent. Effects of refused requests are observed through the CA "
            "list, per-CA command counts and the publisher list only. OpenID Connect is out of scope (offline).",
    "technique": "Lean 4 proof over a source-generated table (decide +kernel) + generic theorems + source translator (body of Role::is_allowed = the model function: gen_is_allowed_eq_model) + correspondence check against the real daemon",
}
