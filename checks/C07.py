"""C07 — Commands are atomic, serialised per entity and completely audited."""
import shutil
import vlib

RULE = ("stream aggstore, two parts. sequential: seeded histories against AggregateStore<Reg> / WalStore<Bag> (both back-ends) in "
        "lock-step with the model, oracle = rejected_only_audit, noop_no_trace, presave_failure_no_trace, failed_call_no_trace, "
        "versions_consecutive, one_key_per_command, read_is_prefix_state, history_lists_all on the implementation's own "
        "observations. concurrent (--conc): 2-6 threads send commands / reads / snapshots to the same and different entities "
        "through two store objects with yield points inside the critical section; the calls are replayed on the model serially "
        "in the OBSERVED lock-acquisition order (every result must be reproduced), the per-entity lock/storage event log must be "
        "well bracketed, every acknowledged command must be stored exactly once (audit_exact); the threads also create, command, "
        "delete and re-create one handle and start with rounds of init commands for the same new handle released by a barrier; "
        "op raceadd: 3-4 threads x 60-200 rounds of init commands for one new handle (exactly_one_init: one acknowledged, command-0 "
        "and the state a fresh store loads are that caller's). both parts: every store call prints the critical sections it ran "
        "(from the cfg-gated event log), compared with the table generated from the source (FAIL model sections) and required to "
        "be ONE section on the entity's scope lock (single_section); a case is one history / one "
        "concurrent run; distinct_nontrivial counts distinct (op kind, model branch) pairs")


def private_kmodel(ctx):
    """The driver of this stream is also linked stand-alone (lean_exe `kagg`, same code as `kmodel aggstore`) so that the
    check does not depend on every other stream's driver building; work on a copy taken under the lake lock."""
    dst = ctx.work / "kagg"
    with vlib.Lock("lake"):
        shutil.copy2(vlib.LEAN / ".lake/build/bin/kagg", dst)
    vlib.KMODEL = dst


def sig(case, idx, verdict):
    op = case["ops"][idx][0].split()
    if verdict.startswith("FAIL oracle"):
        preds = ",".join(sorted(set(verdict.split()[2:])))
        return f"oracle:{preds}:{op[0]}"
    return f"model:{op[0]}"


PROVE = ["KrillModel.Props.C07", "KrillModel.Props.C07Src"]
TABLES = [("store_sections", "StoreSections.lean")]


def check(ctx):
    vlib.translate(ctx, TABLES)
    vlib.prove(ctx, PROVE, extra_targets=("kagg",))
    found = False
    private_kmodel(ctx)
    if vlib.build_harness(ctx, ["aggstore"]):
        n, length = (600, 15) if ctx.tier == "quick" else (20000, 30)
        found = vlib.generic_stateful_stream(ctx, "aggstore", "aggstore C07", n, length, sig)
        n, length = (300, 8) if ctx.tier == "quick" else (8000, 14)
        found |= vlib.generic_stateful_stream(ctx, "aggstore", "aggstore C07", n, length, sig,
                                              extra_args=["--conc"], corpus="aggstore-conc")
    else:
        ctx.failed_obligations.append("harness-build")
    # a known finding is not a failing input for a broken obligation
    vlib.obligations_broken(ctx, bool(ctx.violations))
    ctx.assumptions += [
        "the OS scheduler is modelled as an arbitrary interleaving of the atomic phases of execute_opt_command; real schedules are "
        "sampled (perturbed by yield points inside the critical section), not enumerated",
        "fd-lock / flock (disk) and std RwLock (memory) are trusted to exclude; that the code takes them around the whole call is "
        "proved of the source table regenerated on every run (store_methods_single_section: all reads and writes of a call in ONE "
        "execute(Some(scope)) closure; translator store_sections trusted) and checked dynamically (well-bracketed event log, "
        "sections of every call vs the table, single_section)",
        "the root read lock (shared by all scoped calls) and scope-less calls under the root write lock are not modelled",
        "history queries are not atomic with commands (one lock acquisition per command read); they are checked at quiescence",
        "drop_aggregate concurrent with a command on the same entity is outside the quantifier (cache_remove happens after the lock "
        "is released: reviewed exemption in ES/Sections.lean, model-level witness drop_cache_after_section_strays - a command in "
        "the window is acknowledged on the deleted entity and its record is replayed by a re-created one; the conc stream "
        "serialises deletions with the other calls by a harness guard)",
        "WalStore::remove decides Unknown vs deletion by has_scope under the store-wide lock before its section, WalStore::warm "
        "fills the cache unlocked (start-up): reviewed exemptions, not exercised concurrently",
    ]
    return vlib.finish(ctx, "proof", RULE)


def replay(ctx, data):
    vlib.build_harness(ctx, ["aggstore"])
    vlib.translate(ctx, TABLES)
    vlib.prove(ctx, PROVE, extra_targets=("kagg",))
    c = vlib.exec_ops(ctx, data.get("harness", "aggstore"), data.get("stream", "aggstore C07"), data.get("case", "replay"),
                      data["ops"], "replay")
    for t, v in c["ops"]:
        print(f"{t}  ## {v}")
    ff = vlib.first_failure(c)
    if ff or c.get("crash"):
        print(f"VIOLATION property={ctx.pid} replay={ctx.work}/replay.ops")
        return 1
    print("replay: no failure (a concurrent failure is schedule dependent: the replay runs the calls serially in the recorded order)")
    ctx.cleanup()
    return 0


MANIFEST = {
    "text": "Lean 4 theorems: for ANY machine whose calls are phase lists bracketed by a per-entity lock, any number of threads/entities "
            "and any schedule, the interleaved execution equals the serial execution in lock-acquisition order - state, every result, "
            "none lost or run twice (serialisable, by an invariant over micro-steps); instantiated with the phases of "
            "execute_opt_command and combined with the audit-log refinement (agg_serialisable: consecutive versions, one command-N per "
            "accepted/rejected command, reads return prefix states); without the lock a 2-thread schedule loses an acknowledged update "
            "(lock_necessary, by kernel evaluation); rejected_only_audit, noop_no_trace, presave_failure_no_trace, failed_write_no_trace; "
            "history lists every stored command of the current entity in order with actor for all histories including drop_aggregate + "
            "re-create (history_lists_all; counter-model of the pinned tree kept as history_stale_after_drop, F-C07-1 fixed by 04272ff6). Tie: sequential lock-step differential "
            "execution on both back-ends, and concurrent runs replayed on the model in the observed lock order with a well-bracketedness "
            "check of the cfg-gated lock/storage event log. Source tie of the one-call-one-critical-section assumption (Props/C07Src): "
            "translator store_sections regenerates for every method of AggregateStore / WalStore / KeyValueStore the storage operations "
            "in source order with the execute closure each is in; store_methods_single_section (every entity call has all reads and "
            "writes in one section on the scope lock), store_methods_roles (every other method is a delegate, read-only, a walk, a "
            "helper), model_phases_match_source (the operations of the model's phases are the generated sequence), "
            "check_outside_section_loses_init (duplicate check in its own section: both init commands acknowledged, one lost - the "
            "assumption is necessary), concurrent_adds_one_ok; dynamically the sections every call ran are compared with the table and "
            "concurrent init commands for one new handle are raced (exactly_one_init).",
    "note": "The lock discipline is proved for the model; that the code brackets the whole call is proved of the generated source table "
            "(syntactic: operations per execute closure) and observed (sampled schedules). "
            "F-C07-1 (history cache not cleared by drop_aggregate) was found here and is fixed in /repo (04272ff6); its corpus case guards it.",
    "technique": "Lean 4 proof (interleaving invariant, refinement) + correspondence check (sequential and concurrent)",
}
