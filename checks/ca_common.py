"""Shared by checks/C02.py and checks/C04.py: the `system` stream judged by the `syskeys` driver.

Differences to vlib.judge_traces: every failing line of a case is looked at (a case may contain
a recorded finding and, later, something new), recorded findings are matched *before* any
shrinking (a system case costs 5-20 s, shrinking one costs minutes), and only unrecorded
failures are shrunk and reported as violations."""
import re
from pathlib import Path
import vlib

RULE = ("stream system: seeded histories (profile=roll: CA hierarchies of depth <= 3 under the embedded TA, entitlement "
        "grow/shrink/regain, child suspend/unsuspend/remove, ROA/ASPA/BGPsec changes, key-roll initiate/activate, syncs, "
        "republish/renew tasks, second parent, parent removal; each case ends with `settle <child> <parent>` where a child of a CA "
        "exists: four rounds of sync + pump and one further sync) plus the hand-written scenarios in corpus/system against an "
        "in-process krill; the Lean driver `syskeys` applies every stored command's events to the model state (apply is "
        "partial: none = panic arm), predicts the events of the modelled commands with the model's process, compares the "
        "model state with the observed CertAuth and CaObjects after every op and evaluates the theorem predicates on the "
        "implementation's own state - at a `settle` line Pair.converged (the predicate of exchange_converges*) on the observed "
        "parent/child pair (SyncConverges) and 'the further sync stored no command' (SyncIdempotent); distinct_nontrivial counts distinct (op kind, command/branch tags) pairs")

TRANSLATE = [("apply_domain", "ApplyDomain.lean")]


def signature(case, idx, verdict):
    """A stable name for the class of a failing input: predicate names with their detail, CA names dropped."""
    op = vlib.strip_obs(case["ops"][idx][0]).split()
    if verdict.startswith("FAIL oracle"):
        words = verdict.split()[2:]
        if "MODEL" in words:
            words = words[:words.index("MODEL")]
        preds = sorted(set(w.split("@")[0] for w in words))
        return "oracle:" + ",".join(preds)
    if verdict.startswith("FAIL model"):
        m = re.match(r"FAIL model (\S+) (\S+?):", verdict)
        what = m.group(2) if m else "state"
        if " state " in verdict[:40] or verdict.startswith("FAIL model state"):
            what = "state"
        return f"model:{op[0] if op else '?'}:{what}"
    return f"{verdict.split()[0] if verdict else '?'}:{op[0] if op else '?'}"


def failures(case):
    return [(i, v) for i, (t, v) in enumerate(case["ops"]) if v.startswith("FAIL") or v.startswith("bad-op")]


def judge(ctx, stream, traces, max_shrink=2):
    """Returns True if an *unrecorded* failing input was found (recorded findings are printed as
    KNOWN-FINDING and do not count: a broken proof obligation must still be reported)."""
    found = False
    shrunk = 0
    seen_unknown = set()
    for tr in traces:
        vf = Path(str(tr) + "." + stream.replace(" ", "_") + ".verdict")
        if not vlib.run_model(ctx, stream, tr, vf):
            vlib.report_violation(ctx, "model-driver-crash", {"stream": stream, "trace": str(tr)}, found_input=False)
            continue
        cases = vlib.parse_cases(tr, vf)
        if cases is None:
            vlib.report_violation(ctx, "model-driver-desync", {"stream": stream, "trace": str(tr)}, found_input=False)
            continue
        vlib.histogram(ctx, cases)
        ctx.traces_validated += len(cases)
        if cases and not ctx.samples:
            ctx.samples.append({"stream": stream, "case": cases[0]["id"],
                                "ops": [f"{vlib.strip_obs(t)}  ## {v[:160]}" for t, v in cases[0]["ops"][:16]]})
        for c in cases:
            for idx, v in failures(c):
                sig = signature(c, idx, v)
                if vlib.match_known(ctx.pid, sig):
                    vlib.report_violation(ctx, "known", {}, signature=sig)   # prints KNOWN-FINDING once
                    continue
                found = True
                if sig in seen_unknown:
                    continue
                seen_unknown.add(sig)
                small, sidx, sv = c, idx, v
                if shrunk < max_shrink:
                    shrunk += 1
                    cut = {"id": c["id"], "ops": c["ops"][: idx + 1]}
                    # vlib.shrink works on the first failure: hide earlier (recorded) ones
                    cut["ops"] = [(t, "ok hidden" if j < idx and (w.startswith("FAIL") or w.startswith("bad-op")) else w)
                                  for j, (t, w) in enumerate(cut["ops"])]
                    s = vlib.shrink(ctx, "system", stream, cut, budget=40)
                    ff = vlib.first_failure(s)
                    if ff is not None and signature(s, ff[0], ff[1]) == sig:
                        small, sidx, sv = s, ff[0], ff[1]
                kind = "implementation-vs-oracle" if sv.startswith("FAIL oracle") else "model-vs-implementation"
                vlib.report_violation(ctx, kind, {
                    "stream": stream, "harness": "system", "case": small["id"],
                    "ops": [vlib.strip_obs(t) for t, _ in small["ops"][: sidx + 1]],
                    "verdict": sv[:3000],
                    "replay_cmd": f"./check {ctx.pid} --replay <this file>",
                }, signature=sig)
    return found


def corpus_traces_parallel(ctx, procs=12, extra_files=()):
    """vlib.corpus_traces for the `system` corpus, several harness processes at a time.
    `extra_files`: further scenario files (replays of recorded open findings that this property's
    oracle must keep reporting: they print KNOWN-FINDING, anything else in them is a violation)."""
    import concurrent.futures
    cdir = vlib.VERIF / "corpus" / "system"
    files = sorted(cdir.glob("*.ops")) if cdir.exists() else []
    files += [vlib.VERIF / f for f in extra_files]

    def one(f):
        tr = ctx.work / f"corpus-{f.stem}.trace"
        r = vlib.run([vlib.hbin("system"), "--ops", str(f), "--out", str(tr)], timeout=3600)
        return f, tr, r

    out = []
    with concurrent.futures.ThreadPoolExecutor(max_workers=procs) as ex:
        for f, tr, r in ex.map(one, files):
            if r.returncode != 0:
                ctx.log(f"harness failed on corpus {f}: {r.stdout[-1500:]}")
                vlib.report_violation(ctx, "harness-crash", {"corpus": str(f), "output": r.stdout[-3000:]},
                                      signature="crash:system:corpus")
                continue
            out.append(tr)
    return out


def private_kmodel(ctx):
    """Other checks rebuild `kmodel` (one shared lean_exe) while this one is judging traces for many
    minutes; work from a private copy taken under the lake lock."""
    import shutil
    dst = ctx.work / "kmodel"
    try:
        with vlib.Lock("lake"):
            shutil.copy2(vlib.KMODEL, dst)
        vlib.KMODEL = dst
    except OSError as e:
        ctx.log(f"could not copy the model driver: {e}")


def run(ctx, prop_module, mode, assumptions, translate=(), extra_modules=(), finding_scenarios=()):
    vlib.translate(ctx, TRANSLATE + list(translate))
    vlib.prove(ctx, [prop_module] + list(extra_modules))
    private_kmodel(ctx)
    found = False
    stream = f"syskeys {mode}"
    if vlib.build_harness(ctx, ["system"]):
        ctx.log("harness built; running corpus")
        traces = corpus_traces_parallel(ctx, extra_files=finding_scenarios)
        ctx.log(f"{len(traces)} corpus traces; generating")
        n, length = (24, 14) if ctx.tier == "quick" else (720, 30)
        traces += vlib.parallel_traces(ctx, "system", n, length, extra_args=["profile=roll"])
        ctx.log(f"{len(traces)} traces; judging")
        found = judge(ctx, stream, traces)
    else:
        ctx.failed_obligations.append("harness-build")
    vlib.obligations_broken(ctx, found)
    ctx.assumptions += assumptions
    return vlib.finish(ctx, "proof", RULE)


def replay(ctx, data, prop_module, mode):
    vlib.translate(ctx, TRANSLATE)
    vlib.build_harness(ctx, ["system"])
    vlib.prove(ctx, [prop_module])
    private_kmodel(ctx)
    if "ops" not in data:
        print("replay: no concrete input in this record (a proof obligation / translation no longer checks):")
        print("  " + "\n  ".join(data.get("failed_obligations", [])))
        print(f"VIOLATION property={ctx.pid} replay=(obligation)")
        return 1
    c = vlib.exec_ops(ctx, "system", data.get("stream", f"syskeys {mode}"), data.get("case", "replay"), data["ops"], "replay")
    if c.get("crash"):
        print("harness crashed:", c["crash"][-1500:])
        print(f"VIOLATION property={ctx.pid} replay={ctx.work}/replay.ops")
        return 1
    for t, v in c["ops"]:
        print(f"{vlib.strip_obs(t)}  ## {v[:400]}")
    bad = [(i, v) for i, v in failures(c) if not vlib.match_known(ctx.pid, signature(c, i, v))]
    known = [(i, v) for i, v in failures(c) if vlib.match_known(ctx.pid, signature(c, i, v))]
    for i, v in known:
        print(f"KNOWN-FINDING: property={ctx.pid} {signature(c, i, v)}")
    if bad:
        print(f"VIOLATION property={ctx.pid} replay={ctx.work}/replay.ops")
        return 1
    print("replay: no unrecorded failure")
    ctx.cleanup()
    return 0
