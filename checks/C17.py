"""C17 — ROA analysis agrees with RFC 6811 origin validation."""
import sys
from pathlib import Path
sys.path.insert(0, str(Path(__file__).resolve().parent))
import vlib
from pure_common import run_pure, replay as pure_replay

PROPS = ["KrillModel.Props.C17"]
RELEVANT = {
    "validate_eq_rfc6811", "invalid_iff", "scoped_announcements_exact", "authorizes_exact", "disallows_exact",
    "as0_disallows_exact", "suggest_safe", "suggest_safe_combined", "covers_iff_range", "covers_total",
    "unparsable-report", "no_panic",
}
RULE = ("stream pure, set c17: every line is one independent case - BgpAnalyser::analyse and ::suggest on an analyser filled from "
        "RISwhois text (0-18 announcements, nested/equal prefixes, /0, maximal lengths, AS0 origins, duplicates) with 0-8 ROAs "
        "(mirroring announcements, implicit/explicit max length, AS0, duplicates), held resources and optional scope limit; the "
        "prefix-tree walk eq_or_more_specific against the list filter; RoutePrefix::covers, matching_or_less_specific, "
        "RoaPayload::includes/overlaps; the report is compared entry by entry with the model and judged by brute-force RFC 6811 on the "
        "implementation's own output; thorough adds all pairs of prefix lengths for covers. distinct_nontrivial = distinct "
        "(op, set of report states) pairs")


def check(ctx):
    # body of ValidatedRouteOrigin::validate regenerated from the source; C17Src: generated definition = model function
    vlib.translate(ctx, [("pure_fns:C17", "PureFnsC17.lean")])
    vlib.prove(ctx, PROPS + ["KrillModel.Props.C17Src"])
    found = False
    if vlib.build_harness(ctx, ["pure"]):
        n = 30000 if ctx.tier == "quick" else 500000
        found = run_pure(ctx, "c17", n, RELEVANT)
    else:
        ctx.failed_obligations.append("harness-build")
    vlib.obligations_broken(ctx, found)
    ctx.assumptions += [
        "the RISwhois prefix tree (riswhois.rs) is not modelled as a data structure: its specification is the list filter "
        "`covers`, tied to the tree only by this stream",
        "resource sets enter as the normalised block lists rpki-rs prints and the scope prefixes krill derives from them",
        "report order is not compared (BgpAnalysisReport::new sorts); both sides are compared as multisets",
        "prefixes are well formed (host bits zero) - krill's prefix types enforce it",
    ]
    return vlib.finish(ctx, "proof", RULE)


def replay(ctx, data):
    return pure_replay(ctx, data, PROPS)


MANIFEST = {
    "text": "Lean 4 theorems over a model of ValidatedRouteOrigin::validate, BgpAnalyser::categorise_roa, ::analyse and ::suggest: valid "
            "iff some ROA covers with the same origin and sufficient max length (and the ROA named is the first match), not found iff "
            "no ROA covers, the three invalid kinds characterised, the first-match loop equals the textbook RFC 6811 definition for "
            "every ROA list and announcement, the disallowed_by list is exactly the covering ROAs, each non-AS0 ROA's authorizes / "
            "disallows sets are exactly the observed announcements it matches / covers-and-invalid, covers is range inclusion; every "
            "single suggestion (stale, redundant, AS0-redundant, too-permissive replacement) keeps every valid announcement valid; "
            "negative witnesses for the AS0 'disallows' list and for the suggestion applied as a whole; tied to the code by "
            "differential execution of the real analyser on injected RISwhois text and by brute-force RFC 6811 on its own reports",
    "note": "Kernel-checked theorems are about the model; the prefix tree of riswhois.rs is tied to its list specification only by the "
            "correspondence run. Two places where the code departs from the property are proved as negations and recorded "
            "(F-C17-1 AS0 ROA lists valid announcements as disallowed, F-C17-2 the combined suggestion can remove the only ROAs of a "
            "valid announcement). Announcements with origin AS0 are treated as the code treats them (an AS0 ROA 'validates' them).",
    "technique": "Lean 4 proof (iff-characterisations, spec equivalence) + correspondence check + brute-force oracle on the implementation's output + source translator (body of ValidatedRouteOrigin::validate as a Lean definition, gen_validate_eq_model)",
}
