"""Shared by checks C01, C03, C14: the `system` harness judged by the Lean driver `sysobjects <ID>`.

The three properties share the publication models (`Ca/RoaObjects.lean`, `Ca/Objects.lean`), the
driver and the traces' format; they differ in the theorems (`Props/<ID>.lean`), in the oracle
predicates the driver evaluates (`sysobjects <ID>`) and in the regimes they generate."""
import concurrent.futures, re, shutil
from pathlib import Path
import vlib

FINDINGS_DIR = vlib.VERIF / "corpus" / "system-findings"


def sig(case, idx, verdict):
    op = case["ops"][idx][0].split()
    if verdict.startswith("FAIL oracle"):
        preds = ",".join(sorted(set(verdict.split()[2:])))
        return f"oracle:{preds}:{op[0]}"
    if verdict.startswith("FAIL model"):
        return f"model:{op[0]}"
    return f"{verdict.split()[0] if verdict.split() else '?'}:{op[0]}"


def _run_jobs(ctx, jobs, procs=12):
    """jobs: [(cmd, trace_path, label)] -> [trace_path] in order; harness crashes are reported."""
    out = []
    def one(job):
        cmd, tr, label = job
        r = vlib.run(cmd, timeout=6 * 3600)
        return r.returncode, r.stdout[-3000:], tr, label
    with concurrent.futures.ThreadPoolExecutor(max_workers=procs) as ex:
        for rc, tail, tr, label in ex.map(one, jobs):
            if rc != 0:
                ctx.log(f"harness system failed on {label} (rc={rc}): {tail}")
                vlib.report_violation(ctx, "harness-crash", {"harness": "system", "what": label, "output": tail},
                                      signature="crash:system")
            if Path(tr).exists():
                out.append(tr)
    return out


def corpus(ctx, directory, tag):
    jobs = []
    if directory.exists():
        for f in sorted(directory.glob("*.ops")):
            tr = ctx.work / f"{tag}-{f.stem}.trace"
            jobs.append(([vlib.hbin("system"), "--ops", str(f), "--out", str(tr)], tr, str(f)))
    return _run_jobs(ctx, jobs)


def generate(ctx, regimes, first=0):
    """regimes: [(name, n_cases, length, extra_args)] -> {name: [trace]} ; one process per case."""
    jobs = []
    k = first
    for name, n, length, extra in regimes:
        for i in range(n):
            tr = ctx.work / f"gen-{name}-{i}.trace"
            seed = ctx.seed * 100000 + k
            k += 1
            jobs.append(([vlib.hbin("system"), "--seed", str(seed), "--n", "1", "--len", str(length),
                          "--tier", ctx.tier, "--out", str(tr)] + list(extra), tr, f"{name} seed {seed}"))
    traces = _run_jobs(ctx, jobs)
    by = {}
    for tr in traces:
        name = Path(tr).name[len("gen-"):].rsplit("-", 1)[0]
        by.setdefault(name, []).append(tr)
    return by


def judge(ctx, stream, traces, extra_args_of=lambda tr: (), max_shrinks=2):
    """Runs the driver over the traces. A failing case whose signature is a recorded finding is
    reported as such without shrinking; anything else is shrunk and reported as a violation."""
    found = False
    # shrinking costs minutes: at most `max_shrinks` per run of the check, one per signature
    seen_sigs = ctx.__dict__.setdefault("_seen_sigs", set())
    for tr in traces:
        vf = Path(str(tr) + "." + stream.replace(" ", "_") + ".verdict")
        if not vlib.run_model(ctx, stream, tr, vf):
            vlib.report_violation(ctx, "model-driver-crash", {"stream": stream, "trace": str(tr)}, found_input=False)
            continue
        cases = vlib.parse_cases(tr, vf)
        if cases is None:
            vlib.report_violation(ctx, "model-driver-desync", {"stream": stream, "trace": str(tr)}, found_input=False)
            continue
        vlib.histogram(ctx, cases)
        ctx.traces_validated += len(cases)
        if cases and not ctx.samples:
            ctx.samples.append({"stream": stream, "case": cases[0]["id"],
                                "ops": [f"{vlib.strip_obs(t)}  ## {v}" for t, v in cases[0]["ops"][:14]]})
        for c in cases:
            ff = vlib.first_failure(c)
            if ff is None:
                continue
            found = True
            s = sig(c, ff[0], ff[1])
            if vlib.match_known(ctx.pid, s):
                vlib.report_violation(ctx, "implementation-vs-oracle", {}, signature=s)
                continue
            if s in seen_sigs or len(seen_sigs) >= max_shrinks:
                continue
            seen_sigs.add(s)
            extra = list(extra_args_of(tr))
            small = vlib.shrink(ctx, "system", stream, c, extra, budget=40)
            sf = vlib.first_failure(small) or ff
            s2 = sig(small, sf[0], sf[1])
            kind = "implementation-vs-oracle" if sf[1].startswith("FAIL oracle") else "model-vs-implementation"
            vlib.report_violation(ctx, kind, {
                "stream": stream, "harness": "system", "case": small["id"],
                "ops": [vlib.strip_obs(t) for t, _ in small["ops"][: sf[0] + 1]],
                "verdict": sf[1][:3000],
                "replay_cmd": f"./check {ctx.pid} --replay <this file>",
            }, signature=s2)
    return found


def private_kmodel(ctx):
    """Other checks may relink `kmodel` while this one runs: use a private copy of the driver."""
    dst = ctx.work / "kmodel"
    with vlib.Lock("lake"):
        if vlib.KMODEL.exists():
            shutil.copy2(vlib.KMODEL, dst)
    if dst.exists():
        vlib.KMODEL = dst


def tolerant_ok(pid_list=("C01", "C03", "C14")):
    """The driver may skip the recorded finding `reissue-without-sync` in the always-due regimes only
    while that finding is recorded as open."""
    for k in vlib.load_known():
        if k.get("status") == "open" and "reissue-without-sync" in k.get("signature", ""):
            return True
    return False


def run(ctx, regimes_quick, regimes_thorough, rule, assumptions, extra_bins=(), extra_stream=None,
        translate=(), extra_modules=(), also_judge=None):
    """`also_judge(ctx, traces) -> bool`: a further driver stream judging the same system traces
    (called for every batch of traces before they are dropped)."""
    pid = ctx.pid
    if translate:
        vlib.translate(ctx, list(translate))
    vlib.prove(ctx, [f"KrillModel.Props.{pid}"] + list(extra_modules))
    private_kmodel(ctx)
    found = False
    if vlib.build_harness(ctx, ["system"] + list(extra_bins)):
        regimes = regimes_quick if ctx.tier == "quick" else regimes_thorough
        strict = f"sysobjects {pid}"
        tol = f"sysobjects {pid} tolerant" if tolerant_ok() else strict
        # 1. hand-written scenarios and minimised past failures first, then the recorded findings
        for directory, tag in ((vlib.VERIF / "corpus" / "system", "corpus"), (FINDINGS_DIR, "finding")):
            traces = corpus(ctx, directory, tag)
            found |= judge(ctx, strict, traces)
            if also_judge is not None:
                found |= bool(also_judge(ctx, traces))
        # 2. generated histories per regime (traces are large: judged and dropped regime by regime)
        k0 = 0
        for name, n, length, extra in regimes:
            by = generate(ctx, [(name, n, length, extra)], first=k0)
            k0 += n
            always_due = any(a.startswith("before_next=") for a in extra)
            traces = by.get(name, [])
            found |= judge(ctx, tol if always_due else strict, traces)
            if also_judge is not None:
                found |= bool(also_judge(ctx, traces))
            for tr in traces:
                for f in Path(tr).parent.glob(Path(tr).name + "*"):
                    f.unlink(missing_ok=True)
        # 3. further streams of this property
        if extra_stream is not None:
            found |= bool(extra_stream(ctx))
    else:
        ctx.failed_obligations.append("harness-build")
    vlib.obligations_broken(ctx, found)
    if ctx.violations:
        # /repo is shared: somebody else's mutation test may have been applied while this check ran
        st = vlib.run(["git", "-C", str(vlib.REPO), "status", "--short"]).stdout.strip()
        if st:
            ctx.log("note: /repo has uncommitted changes (another mutation test may be running):\n" + st)
            ctx.notes.append("uncommitted changes in /repo at the end of the run: " + st)
    ctx.assumptions += assumptions
    return vlib.finish(ctx, "proof", rule)


def replay(ctx, data):
    vlib.build_harness(ctx, ["system"])
    vlib.prove(ctx, [f"KrillModel.Props.{ctx.pid}"])
    private_kmodel(ctx)
    if "ops" not in data:
        print("replay: this record names broken obligations, not an input:", data.get("failed_obligations"))
        return 1
    c = vlib.exec_ops(ctx, "system", data.get("stream", f"sysobjects {ctx.pid}"), data.get("case", "replay"),
                      data["ops"], "replay")
    for t, v in c["ops"]:
        print(f"{vlib.strip_obs(t)}  ## {v[:600]}")
    ff = vlib.first_failure(c)
    if ff:
        s = sig(c, ff[0], ff[1])
        k = vlib.match_known(ctx.pid, s)
        if k:
            print(f"KNOWN-FINDING: property={ctx.pid} {k['what']}")
            return 0
        print(f"VIOLATION property={ctx.pid} replay={ctx.work}/replay.ops")
        return 1
    print("replay: no failure")
    ctx.cleanup()
    return 0
