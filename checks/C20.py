"""C20 — Only genuine credentials authenticate, and only as the configured identity."""
import sys
from pathlib import Path
sys.path.insert(0, str(Path(__file__).resolve().parent))
import vlib, http_common

# C20Src: the body of Authorizer::authenticate_request regenerated from the source (pure_fns) = the model chain
MODULES = ["KrillModel.Props.C20", "KrillModel.Props.C20Src"]
TABLES = [("permissions", "Perm.lean"), ("routes", "Routes.lean"), ("pure_fns:C20", "PureFnsC20.lean")]

RULE = ("stream http: real logins at the real daemon (config-file provider, scrypt), then per valid token: every truncation "
        "length, single-bit flips of the base64 text (quick: seeded sample, thorough: all), non-canonical base64 (unused "
        "trailing bits), stripped/added padding, URL-safe alphabet, case swap, duplication, token of a second instance with "
        "another key, arbitrary strings, unreadable Authorization headers, admin token verbatim / prefix / extension / other "
        "case, all on a gated probe route over the Unix socket (mapped and unmapped peer) and loopback TCP; damaged, foreign and "
        "re-encoded tokens on every row of the route table; user names differing by case / white space / NFKC and wrong, padded "
        "and normalised passwords; users whose configured password_hash is not the text of a hash (locked '!', empty, the right hash "
        "truncated / one character longer / in upper-case hex / 64 non-hex characters) or is the well-formed hash of another user's "
        "password (own salt, copied salt), tried with the password whose hash was mangled, another user's, the stored string, the empty "
        "and a 4000-character password, every token handed out is used; the neighbourhood of the admin token and of a session token "
        "(every proper prefix / sampled lengths, one more character, more text, one changed character front / middle / end, other "
        "case, white space around it, nothing) on /api/v1/authorized, POST /api/v1/cas, POST /api/v1/cas/{ca}/id and POST /auth/login, "
        "on both transports, with the config-file provider primary (admin token = legacy arm; unmapped and mapped peer) and with the "
        "admin-token provider primary; configuration FILES loaded by krill's own loader (Config::read_config + Config::process, one daemon "
        "per file; every other configuration has its authentication fields set before Config::process runs): no [auth_roles] (built-in "
        "roles), own roles that shadow built-in names with fewer permissions, own roles that omit built-in names which users, "
        "[unix_users] or the default unix_users (root = admin) refer to, no [auth_users], seeded combinations; `start` observes whether "
        "the daemon accepts the file (model: startOk), then the socket peer and every user's token are used on the sample rows and "
        "judged by the role the CONFIGURED map has under that name (oracle identity_role_is_configured); the audit actor of accepted commands. The model is the provider chain with its fall-through "
        "and the symbolic session cache; the oracle judges observed logins by the full-strength login predicate")


def check(ctx):
    vlib.translate(ctx, TABLES)
    vlib.prove(ctx, MODULES)
    found = False
    if vlib.build_harness(ctx, ["http"]):
        found = http_common.run_stream(ctx, "c20", "c20")
    else:
        ctx.failed_obligations.append("harness-build")
    vlib.obligations_broken(ctx, found)
    ctx.assumptions += [
        "symbolic cryptography: a token verifies under a key iff it was sealed under that key; scrypt hashes are equal iff "
        "their inputs are (ChaCha20-Poly1305 and scrypt strength assumed)",
        "trim + NFKC is taken from the unicode-normalization crate (the harness passes its graph on the strings of a case)",
        "a configured password_hash that is not the lower-case hex text of a 32-byte value (junk) equals no computed hash; the text of "
        "another hash term equals the computed one iff password, user name and salt are equal (symbolic scrypt); the configured salt "
        "of every user is valid hex (krill unwraps hex::decode(salt) at login: a non-hex salt panics there - a C16 matter, not modelled)",
        "a near miss of a session token (its base64 text shortened, extended, changed in one character or re-cased) is not the canonical "
        "encoding of a payload sealed under the instance key (AEAD assumption); white space around a token is removed by the header parsing",
        "ConfigDefaults::unix_users (root = admin) is hand-modelled (the built-in role map is generated); both are exercised by configuration "
        "files without the sections; the check runs as root so the default mapping is the peer's",
        "session expiry is not modelled: the config-file provider issues sessions without expiry and never checks it",
        "the peer of the Unix socket is the user running the check ('mapped' / 'unmapped' decided by the configuration); when the "
        "check runs as root (it does here; otherwise the case c20-unixcred is skipped with a message) the connecting thread's "
        "effective uid and gid are additionally varied (root/daemon/bin/sys/nobody x gids 0,1,2,3,12,65534; SO_PEERCRED is taken "
        "at connect time) and the served identity is compared with the model's: the user of the effective uid, whatever the gid",
        "OpenID Connect provider not modelled (offline)",
    ]
    return vlib.finish(ctx, "proof", RULE)


def replay(ctx, data):
    return http_common.replay(ctx, data, MODULES, TABLES)


MANIFEST = {
    "text": "Lean 4 model of Authorizer::authenticate_request as written (legacy admin token -> primary provider -> Unix-socket peer; "
            "Ok(None) and Err both fall through), the admin-token comparison (generated from admin_token.rs), the config-file "
            "provider's login (user looked up under the trimmed+NFKC name; role must allow login) and authenticate, and the session cache with symbolic AEAD (token = base64(nonce|tag|ciphertext), decode = "
            "cache hit or strict base64 + tag verification as term equality + JSON). Theorems: authenticates_iff (admin token "
            "verbatim, or a session sealed under this instance's key with the configured role, or - only if no bearer string is "
            "accepted - the mapped socket peer; never anything on TCP without an accepted bearer), the cache is sound after every "
            "history of requests/logins/logouts/sweeps so it never matters, every issued token is for a configured user with that "
            "user's role, any string that is neither the admin token nor a canonical sealing under the own key is rejected "
            "(truncated, bit-flipped, re-encoded, foreign-key tokens as special cases) and refused on every gated route with no "
            "server call, login_iff exactly as the code decides, login_identity at full strength (whoever logs in is a configured user "
            "whose own stored hash matches the password sent - for every configuration and every name/password pair), the audit "
            "actor is the authenticated id; junk_hash_never_logs_in (an entry whose stored hash is not the text of a hash admits no password); "
            "get_bearer_token_spec and near_miss_same_iff (of the neighbourhood of any credential text - prefixes, extensions, one changed "
            "character, other case, padding, nothing - exactly the members that only add white space are the same credential), "
            "near_miss_rejected (all others authenticate nobody, both provider configurations), authenticates_iff_admin_token; the configuration "
            "file model (ConfigModel: the role map is the [auth_roles] of the file if present, else the built-in roles, never a union; "
            "unix_users defaults to root = admin): role_map_is_configured, start_refused_iff (the daemon refuses exactly the files that "
            "select the config-file provider without [auth_users] or map a socket user to a role the map lacks), "
            "identity_role_is_configured (the role of every authenticated identity is the admin-token role or roles.get(name) of the "
            "configured map), login_role_is_configured, undefined_role_never_logs_in. The pinned tree violated login_identity (two look-ups; finding F-C20-1, fixed by "
            "2ee45739): the old function is kept as a labelled counter-model with the witness, and the corpus replays the "
            "confusing logins on the real daemon on every run.",
    "note": "Cryptography is symbolic (term equality); the correspondence uses the real ChaCha20-Poly1305/scrypt code of the daemon "
            "with thousands of mutated tokens. A failed bearer token over the Unix socket of a mapped peer authenticates as the peer "
            "(by design of the chain; the peer could have sent no token); the theorem states this fall-through explicitly. Sessions "
            "never expire and survive logout (not part of the property). OpenID Connect is out of scope (offline).",
    "technique": "Lean 4 proof (iff-characterisations, induction over histories, symbolic crypto) + source translator (body of the provider chain Authorizer::authenticate_request = the model chain: gen_authenticate_request_eq_model) + correspondence check against the real daemon",
}
