"""C09 — Background work is durable and recurring maintenance never stops."""
import vlib

RULE = ("stream queue: seeded op sequences (schedule in 5 modes / claim / finish / reschedule / restart) against "
        "commons::queue::Queue + server::mq::TaskQueue on memory and disk back-ends with injected queue clock; "
        "a case is one sequence; distinct_nontrivial counts distinct (op kind, model branch) pairs the model took "
        "in lock-step with the implementation")


def sig(case, idx, verdict):
    op = case["ops"][idx][0].split()
    if verdict.startswith("FAIL oracle"):
        preds = ",".join(sorted(set(verdict.split()[2:])))
        extra = ""
        if op[0] == "startup":
            order = [w for w in op if w.startswith("order=")]
            n = 0 if not order or order[0] == "order=-" else len(order[0][6:].split(","))
            extra = f":running{n}"
        return f"oracle:{preds}:{op[0]}{extra}"
    return f"model:{op[0]}"


def check(ctx):
    vlib.translate(ctx, [("startup_guard", "StartupGuard.lean"), ("event_tasks", "EventTasks.lean"),
                         ("scheduler_tasks", "SchedulerTasks.lean"),
                         # closure body of Queue::schedule_task regenerated from the source; C09Src: generated = model
                         ("pure_fns:C09", "PureFnsC09.lean")])
    vlib.prove(ctx, ["KrillModel.Props.C09", "KrillModel.Props.C09Src"])
    found = False
    if vlib.build_harness(ctx, ["queue"]):
        n, length = (400, 20) if ctx.tier == "quick" else (20000, 40)
        found = vlib.generic_stateful_stream(ctx, "queue", "queue", n, length, sig)
    else:
        ctx.failed_obligations.append("harness-build")
    # follow-ups at the level of the running system: a change committed while the task that
    # would pick it up is in the running state (scenarios in corpus/system-c09)
    if vlib.build_harness(ctx, ["system"]):
        traces = vlib.corpus_traces(ctx, "system", corpus="system-c09")
        found = vlib.judge_traces(ctx, "system", "sysreq", traces, sig) or found
    else:
        ctx.failed_obligations.append("harness-build")
    vlib.obligations_broken(ctx, found)
    ctx.assumptions += [
        "list_keys iteration order is arbitrary (model is non-deterministic over it)",
        "the scheduler's mapping TaskResult -> queue call (scheduler.rs:75-100) is modelled (handleResult) but driven only through the system stream",
        "reschedule_long_running_tasks is not modelled: no production caller",
    ]
    return vlib.finish(ctx, "proof", RULE)


def replay(ctx, data):
    vlib.build_harness(ctx, ["queue"])
    vlib.prove(ctx, ["KrillModel.Props.C09"])
    c = vlib.exec_ops(ctx, data.get("harness", "queue"), data.get("stream", "queue"), data.get("case", "replay"), data["ops"], "replay")
    for t, v in c["ops"]:
        print(f"{t}  ## {v}")
    ff = vlib.first_failure(c)
    if ff:
        print(f"VIOLATION property={ctx.pid} replay={ctx.work}/replay.ops")
        return 1
    print("replay: no failure")
    ctx.cleanup()
    return 0

MANIFEST = {
    "text": "Lean 4 theorems over a model of Queue/TaskQueue (claim earliest-first, none iff nothing due, soonest keeps the earlier time, "
            "if-missing keeps existing, task names only leave the queue by finish, every running task re-queued at restart for every "
            "state / number of running tasks / listing order, recurring tasks pending after start, bounded waiting: a due task is handed out after at "
            "most as many claims as there are pending entries not later than it – due_task_claimed_within) plus tables regenerated from the source "
            "on every run (start-up guard, event -> follow-up task, task -> possible results, queue_start_tasks) with decide-checked "
            "theorems (object change -> repo sync, request -> parent sync, activation/removal -> revocation, publication -> RRDP update, "
            "recurring handlers only ever follow themselves up); followup_never_lost: for any number of request threads and every interleaving "
            "with the scheduler, change-then-schedule with a guaranteed method leaves nothing staged at rest – with counter-models for "
            "schedule-before-change and schedule_missing, and source_publish_is_change_first_guaranteed tying both to the regenerated tables); the model is tied to the code by lock-step differential execution on both storage back-ends and by evaluating "
            "the theorem predicates on the implementation's own trace",
    "note": "Kernel-checked theorems are about the model; the tie is seeded differential execution plus a syn translator for the start-up "
            "guard. list_keys order is modelled as arbitrary (non-deterministic model). The wall clock is replaced by the injected queue "
            "clock (hook). Scheduler thread and process exit are not exercised here.",
    "technique": "Lean 4 proof (induction, non-deterministic model) + correspondence check + source translators (tables; the body of Queue::schedule_task as a Lean definition, gen_schedule_task_eq_model; the fold closure of Queue::claim_scheduled_pending_task, gen_claim_fold_chooses_earliest_due: folded over the pending keys in any order it yields a member of claimChoices; the entry points of TaskQueue in mq.rs - schedule, schedule_and_finish_existing, schedule_missing, schedule_task, reschedule - composed with it: gen_tq_*_eq_model)",
}
