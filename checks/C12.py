"""C12 — Up-down (RFC 6492) and publication (RFC 8181) requests act only for the registered identity key."""
import os, sys
sys.path.insert(0, os.path.dirname(os.path.abspath(__file__)))
import vlib
import proto_common as pc

RULE = ("stream proto, profile=cms: an in-process krill (TA, parent p, children c and d, embedded publication server); "
        "real CMS objects built with krill's own signer (create_rfc6492_cms / create_rfc8181_cms) under the sender's "
        "current ID key, another child's key, the ID key from before an update, a random key, the parent's and the "
        "server's own key, with claimed sender != signer, unknown sender, wrong recipient, every request kind (list, "
        "issue for an own / a new / another child's key, revoke of an own / another child's key, unknown class, limits, "
        "reply payloads), before and after updateid / ca_child_update(id) / publisher re-registration / suspension, fed "
        "to CaManager::rfc6492 and RepositoryManager::rfc8181 for the right and for other URL handles; suspension "
        "episodes (ca_child_update suspend, entitlement unchanged / reduced / enlarged / disjoint, two resource classes, "
        "two keys during a key roll, a certificate with a limit, certificates about to expire, manual unsuspend) followed "
        "by requests under the suspended child's own or a foreign key; single-bit "
        "corruptions of valid messages (quick: 128 sampled bits per message, thorough: every bit). The Lean driver "
        "predicts refusal class / reply / state change from the message's description (decodes?, sender, recipient, "
        "payload, the known ID key it validates under - derived with rpki-rs) and the observed registrations with the "
        "issued and suspended child certificates (key, class, resources, limit, expiring), compares reply content "
        "(per listed certificate: key and resources) and the resulting state (per child: suspension flag, keys in use / "
        "revoked, issued and suspended certificates; also after childsuspend / childres / childunsuspend), and evaluates acts_only_for_registered_key, refused_no_change (raw state "
        "before/after compared), scope_of_accepted, scope_within_entitlement (a certificate in a reply that the CA did "
        "not hold before the request carries only resources of the sender's entitlement), reply_signed_by_current_id and "
        "flip_identical on the "
        "implementation's own observations; distinct_nontrivial counts distinct (op kind, model branch) pairs")


def signature(case, idx, verdict):
    op = vlib.strip_obs(case["ops"][idx][0]).split()
    kind = op[0] if op else "?"
    if any(w.startswith("flip=") for w in op):
        kind = "flip" + kind[4:]
    if verdict.startswith("FAIL oracle"):
        words = verdict.split()[2:]
        if ";" in words:
            words = words[:words.index(";")]
        return f"oracle:{','.join(sorted(set(words)))}:{kind}"
    if verdict.startswith("FAIL model"):
        return f"model:{kind}"
    return f"{verdict.split()[0] if verdict else '?'}:{kind}"


def check(ctx):
    # bodies of CaManager::rfc6492 and CertAuth::verify_rfc6492 regenerated from the source; C12Src: = the model's rfc6492
    vlib.translate(ctx, [("pure_fns:C12", "PureFnsC12.lean")])
    vlib.prove(ctx, ["KrillModel.Props.C12", "KrillModel.Props.C12Src"])
    pc.private_kmodel(ctx)
    found = False
    if vlib.build_harness(ctx, ["proto"]):
        n, length = (14, 26) if ctx.tier == "quick" else (56, 50)
        traces = pc.corpus_traces_parallel(ctx, "proto-cms", procs=10)
        traces += vlib.parallel_traces(ctx, "proto", n, length, procs=14, extra_args=["profile=cms"])
        found = pc.judge(ctx, traces, signature, sample_pref=("send", "flip", "updateid", "childid", "pubreadd"))
    else:
        ctx.failed_obligations.append("harness-build")
    vlib.obligations_broken(ctx, found)
    ctx.assumptions += [
        "cryptography is symbolic: decode : Bytes -> Option Signed is a parameter of the model and of every theorem; in "
        "the correspondence run it is instantiated by rpki-rs (ProvisioningCms/PublicationCms::decode + validate_at "
        "against every ID key the harness knows)",
        "a CSR can only be made for a key whose private half the sender holds (proof of possession), so an issuance "
        "request never names another child's key unless that child shares it; scope_of_accepted states the removal of a "
        "certificate in terms of the key named in the request",
        "the recipient handle of an RFC 6492 message is not compared with the addressed CA by krill; the model follows",
        "multi-element publication deltas are C10's subject; here each delta has one element",
        "messages older than the CMS validity window (+-5 min) are not produced (no clock control over rpki-rs)",
        "children do not share certificate keys: krill marks a removed key revoked in every child that has it in use and "
        "keeps one certificate per key and class whoever asked for it; the model books both under the sender",
        "a resource class that holds child certificates has a current key (the model's classes are those with a current "
        "key; process_child_unsuspend also walks classes without one, where issue_cert would fail)",
        "the clock enters the un-suspension as one bit per suspended certificate (not_after <= now + 1 day), observed by "
        "the harness at the time of the request",
    ]
    return vlib.finish(ctx, "proof", RULE)


def replay(ctx, data):
    return pc.replay(ctx, data, "KrillModel.Props.C12")


MANIFEST = {
    "text": "Lean 4 theorems over a symbolic model of the CMS envelopes, for every decoder (every mapping of bytes to signed "
            "messages, hence every corruption), every state of the parent CA / publication server (before and after identity "
            "updates) and every message: any state change or any reply implies the bytes decode to a message validly signed "
            "with the key registered at that moment for the child named as sender (RFC 6492) / the publisher named in the URL "
            "(RFC 8181); everything else is refused with identical state and no reply; an accepted request touches the "
            "sender's record and certificates only - the automatic un-suspension of a suspended sender included, which "
            "re-issues a suspended certificate iff it is not about to expire and its resources are inside the sender's "
            "current entitlement (unsuspend_reissues_iff), drops the others and marks their keys revoked, and fails as a "
            "whole iff a limit no longer fits (unsuspend_fails_iff) -, issues within entitlement and class, lists only its "
            "certificates with the resources they carry, "
            "publishes only under the base URI of the access record and leaves other publishers' files alone; the reply is "
            "signed with the server side's current ID key and addressed to the sender. Tied to the code by feeding real CMS "
            "objects built under right and wrong keys, and single-bit corruptions of them, to CaManager::rfc6492 and "
            "RepositoryManager::rfc8181 of an in-process krill in lock-step with the model, comparing replies, raw state "
            "before/after and the theorem predicates on the implementation's observations",
    "note": "Kernel-checked theorems are about the model; the tie is seeded differential execution (stream proto, profile "
            "cms). Cryptography is symbolic; which key a CMS validates under is determined with rpki-rs inside the harness. "
            "A corrupted message may be accepted only if it still decodes to the identical message and still validates.",
    "technique": "Lean 4 proof (decision logic under symbolic crypto, parametric in the decoder) + source translator (bodies of CaManager::rfc6492 and CertAuth::verify_rfc6492 = the model's rfc6492: gen_rfc6492_eq_model; body of RepositoryManager::rfc8181 = the model's rfc8181: gen_rfc8181_eq_model) + lock-step correspondence "
                 "with real CMS objects + oracle on observed state",
}
