"""Shared by checks/C15.py and checks/C12.py: the `proto` stream (harness/src/bin/proto) judged by the
Lean driver `kmodel proto`.

Every failing line of a case is looked at; recorded findings are matched before any shrinking (a
case costs 10-30 s, shrinking one costs minutes); only unrecorded failures are shrunk and reported."""
import json, re
from pathlib import Path
import vlib

HARNESS = "proto"
STREAM = "proto"


def private_kmodel(ctx):
    """Other checks re-link the shared `kmodel` while this one runs (the file is missing for a moment):
    work with a private copy taken under the lake lock right after `prove`."""
    import shutil
    dst = ctx.work / "kmodel"
    for _ in range(30):
        try:
            with vlib.Lock("lake"):
                shutil.copy2(vlib.LEAN / ".lake/build/bin/kmodel", dst)
            vlib.KMODEL = dst
            return
        except FileNotFoundError:
            import time
            time.sleep(2)


def corpus_traces_parallel(ctx, corpus, procs=8, extra_args=()):
    """`vlib.corpus_traces` with the corpus files run side by side (every file is its own in-process krill,
    5-10 s each); same reporting, same order of the returned traces."""
    import concurrent.futures
    cdir = vlib.VERIF / "corpus" / corpus
    files = sorted(cdir.glob("*.ops")) if cdir.exists() else []
    def one(f):
        tr = ctx.work / f"corpus-{f.stem}.trace"
        r = vlib.run([vlib.hbin(HARNESS), "--ops", str(f), "--out", str(tr)] + list(extra_args), timeout=3600)
        return (f, tr, r.returncode, r.stdout[-3000:])
    out = []
    with concurrent.futures.ThreadPoolExecutor(max_workers=max(1, procs)) as ex:
        for f, tr, rc, tail in ex.map(one, files):
            if rc != 0:
                ctx.log(f"harness failed on corpus {f}: {tail[-1500:]}")
                vlib.report_violation(ctx, "harness-crash", {"corpus": str(f), "output": tail},
                                      signature=f"crash:{HARNESS}:corpus")
                continue
            out.append(tr)
    return out


def failures(case):
    return [(i, v) for i, (t, v) in enumerate(case["ops"]) if v.startswith("FAIL") or v.startswith("bad-op")]


def obs_of(line):
    parts = line.split(" => ", 1)
    if len(parts) < 2:
        return {}
    try:
        return json.loads(parts[1])
    except Exception:
        return {}


def judge(ctx, traces, signature, extra_args=(), max_shrink=1, sample_pref=None):
    """Returns True if any failing input (recorded or not) was found."""
    found = False
    shrunk = 0
    seen_unknown = set()
    for tr in traces:
        vf = Path(str(tr) + ".verdict")
        if not vlib.run_model(ctx, STREAM, tr, vf):
            vlib.report_violation(ctx, "model-driver-crash", {"stream": STREAM, "trace": str(tr)}, found_input=False)
            continue
        cases = vlib.parse_cases(tr, vf)
        if cases is None:
            vlib.report_violation(ctx, "model-driver-desync", {"stream": STREAM, "trace": str(tr)}, found_input=False)
            continue
        vlib.histogram(ctx, cases)
        ctx.traces_validated += len(cases)
        if cases and len(ctx.samples) < 2:
            c = cases[0]
            ops = [f"{vlib.strip_obs(t)}  ## {v}" for t, v in c["ops"]]
            if sample_pref:
                ops = [o for o in ops if any(o.startswith(p) for p in sample_pref)] or ops
            ctx.samples.append({"stream": STREAM, "case": c["id"], "ops": ops[:16]})
        for c in cases:
            for idx, v in failures(c):
                found = True
                sig = signature(c, idx, v)
                if vlib.match_known(ctx.pid, sig):
                    vlib.report_violation(ctx, "implementation-vs-oracle", {"case": c["id"]}, signature=sig)
                    continue
                if sig in seen_unknown:
                    break
                seen_unknown.add(sig)
                small = c
                if shrunk < max_shrink:
                    shrunk += 1
                    cut = {"id": c["id"], "ops": c["ops"][: idx + 1]}
                    small = vlib.shrink(ctx, HARNESS, STREAM, cut, extra_args, budget=18)
                sf = vlib.first_failure(small) or (idx, v)
                ssig = signature(small, sf[0], sf[1])
                kind = "implementation-vs-oracle" if sf[1].startswith("FAIL oracle") else "model-vs-implementation"
                vlib.report_violation(ctx, kind, {
                    "stream": STREAM, "harness": HARNESS, "case": small["id"],
                    "ops": [vlib.strip_obs(t) for t, _ in small["ops"][: sf[0] + 1]],
                    "verdict": sf[1][:2000],
                    "replay_cmd": f"./check {ctx.pid} --replay <this file>",
                }, signature=ssig)
                break   # after an unrecorded failure the rest of the case is not trustworthy
    return found


def replay(ctx, data, prop_module):
    vlib.build_harness(ctx, [HARNESS])
    vlib.prove(ctx, [prop_module])
    private_kmodel(ctx)
    c = vlib.exec_ops(ctx, data.get("harness", HARNESS), data.get("stream", STREAM), data.get("case", "replay"),
                      data["ops"], "replay")
    if c.get("crash"):
        print(c["crash"])
    for t, v in c["ops"]:
        print(f"{vlib.strip_obs(t)}  ## {v[:400]}")
    ff = vlib.first_failure(c)
    if ff:
        print(f"VIOLATION property={ctx.pid} replay={ctx.work}/replay.ops")
        return 1
    print("replay: no failure")
    ctx.cleanup()
    return 0
