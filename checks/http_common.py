"""Shared by checks/C13.py and checks/C20.py: the `http` correspondence stream.

Unlike vlib.generic_stateful_stream this runner looks at *every* failing line of a case (a case
may contain a recorded finding and, later, something new), matches recorded findings before any
shrinking, and shrinks by keeping the configuration, the logins and the failing request (requests
are independent of each other; a replay starts a fresh daemon, which costs seconds)."""
import json, re, sys, unicodedata
from pathlib import Path
import vlib

ROUTES_JSON = vlib.LEAN / "KrillModel/Generated/Routes.json"
CONFIG_WORDS = ("cfg", "role", "user", "unix", "norm", "foreign", "start")


def routes():
    try:
        return {r["idx"]: r for r in json.load(open(ROUTES_JSON))}
    except Exception:
        return {}


def unhex(s):
    return "" if s == "-" else bytes.fromhex(s).decode("utf-8", "replace")


def norm(s):
    return unicodedata.normalize("NFKC", s.strip())


def kv(words, key):
    for w in words:
        if w.startswith(key + "="):
            return w[len(key) + 1:]
    return None


def signature(case, idx, verdict, table):
    """A stable name for the class of failing input."""
    op = vlib.strip_obs(case["ops"][idx][0]).split()
    if op and op[0] == "fuzz":
        return fuzz_signature(op, verdict, table)
    is_login = kv(op, "segs") == "auth/login" and len(op) > 2 and op[2] == "POST"
    kind = "login" if is_login else (op[0] if op else "?")
    row = table.get(int(op[1])) if len(op) > 1 and op[1].isdigit() else None
    where = f"{row['method']}{row['pattern']}" if row else "?"
    if verdict.startswith("FAIL oracle"):
        preds = verdict.split("(")[0].split()[2:]
        preds = ",".join(sorted(set(preds)))
        extra = ""
        if "login_identity" in preds and is_login:
            auth = kv(op, "auth") or ""
            cls = "other"
            if auth.startswith("basic:"):
                raw = unhex(auth.split(":")[1])
                users = set()
                for t, _ in case["ops"]:
                    w = t.split()
                    if w and w[0] == "user":
                        users.add(unhex(w[1]))
                if raw != norm(raw) and raw in users and norm(raw) in users:
                    cls = "equivalent-names-both-configured"
            extra = ":" + cls
            return f"oracle:{preds}:{kind}{extra}"
        return f"oracle:{preds}:{kind}:{where}"
    if verdict.startswith("FAIL model"):
        return f"model:{kind}:{where}"
    return "bad-op:" + kind


def kmodel(ctx):
    """A private copy of the model driver, taken under the lake lock right after it was built: other
    checks relink (or break) the shared executable while this one is still running."""
    mine = ctx.work / "kmodel"
    if not mine.exists():
        import shutil
        with vlib.Lock("lake"):
            if not vlib.KMODEL.exists():
                vlib.run(["lake", "build", "kmodel"], cwd=vlib.LEAN, timeout=3600)
            if not vlib.KMODEL.exists():
                return None
            shutil.copy2(vlib.KMODEL, mine)
    return mine


def run_model(ctx, trace_path, out_path):
    import subprocess
    km = kmodel(ctx)
    if km is None:
        ctx.log("the model driver (kmodel) cannot be built")
        return False
    with open(trace_path) as fi, open(out_path, "w") as fo:
        r = subprocess.run([str(km), "http"], stdin=fi, stdout=fo, stderr=subprocess.PIPE, text=True)
    if r.returncode != 0:
        ctx.log("model driver failed:", r.stderr[-1000:])
    return r.returncode == 0


def exec_ops(ctx, case_id, ops, tag):
    opsf = ctx.work / f"{tag}.ops"
    trf = ctx.work / f"{tag}.trace"
    vf = ctx.work / f"{tag}.verdict"
    opsf.write_text(f"case {case_id}\n" + "\n".join(ops) + "\n")
    r = vlib.run([vlib.hbin("http"), "--ops", str(opsf), "--out", str(trf)], timeout=3600)
    if r.returncode != 0:
        return {"id": case_id, "ops": [(o, "") for o in ops], "crash": r.stdout[-2000:]}
    run_model(ctx, trf, vf)
    cs = vlib.parse_cases(trf, vf)
    if not cs:
        return {"id": case_id, "ops": [(o, "") for o in ops], "crash": "trace/verdict length mismatch"}
    return cs[0]


def fuzz_signature(op, verdict, table):
    """oracle:no_panic:fuzz:<panic location;message | no-response | daemon-down>:<METHOD><pattern>:<segment name | body>"""
    row = table.get(int(op[1])) if len(op) > 1 and op[1].isdigit() else None
    where = f"{op[2]}{row['pattern']}" if row else "?"
    what = kv(op, "what") or "?"
    what = "body" if what.startswith("body:") else (":".join(what.split(":")[:2]) if what.startswith("hdr:") else what)
    if verdict.startswith("FAIL oracle"):
        w = verdict.split()
        loc = "?"
        for x in w[2:]:
            if x.startswith("panic="):
                loc = x[6:]
            elif x in ("no-response", "daemon-down"):
                loc = x
        return f"oracle:no_panic:fuzz:{loc}:{where}:{what}"
    return "bad-op:fuzz"


def run_pathfuzz(ctx, max_reports=4):
    """C16: profile=pathfuzz of the http harness. Returns True if a failing input that is not a recorded
    finding was found."""
    table = routes()
    found = False
    if kmodel(ctx) is None:
        ctx.failed_obligations.append("kmodel-build")
        return False
    tr = ctx.work / "pathfuzz.trace"
    r = vlib.run([vlib.hbin("http"), "--seed", str(ctx.seed), "--tier", ctx.tier, "--out", str(tr), "profile=pathfuzz"],
                 timeout=3 * 3600)
    lines = tr.read_text().splitlines() if tr.exists() else []
    if r.returncode != 0:
        # the process (the daemon runs in it) died: the request that was under way is the last `#pending` line
        pend = [l for l in lines if l.startswith("#pending ")]
        last = pend[-1][9:] if pend and not (lines and not lines[-1].startswith("#")) else None
        ctx.log(f"harness http (pathfuzz) exited with {r.returncode}: {r.stdout[-1500:]}")
        if last:
            op = last.split()
            sig = fuzz_signature(op, "FAIL oracle no_panic daemon-down", table).replace(":daemon-down:", ":process-exit:")
            cfgl = [l for l in lines if l.split()[:1] == ["cfg"]]
            vlib.report_violation(ctx, "implementation-vs-oracle", {
                "stream": "http", "harness": "http", "case": "pathfuzz-exit", "ops": cfgl + [last],
                "verdict": "FAIL oracle no_panic process-exit", "request": last, "output": r.stdout[-2000:],
            }, signature=sig)
            found = found or not vlib.match_known(ctx.pid, sig)
        else:
            vlib.report_violation(ctx, "harness-crash", {"stream": "http", "output": r.stdout[-3000:]}, signature="crash:http:pathfuzz")
            found = True
        # judge what was recorded before the exit as well
        tr.write_text("\n".join(l for l in lines if not l.startswith("#")) + "\n")
    vf = Path(str(tr) + ".verdict")
    if not run_model(ctx, tr, vf):
        vlib.report_violation(ctx, "model-driver-crash", {"stream": "http"}, found_input=False)
        return found
    cases = vlib.parse_cases(tr, vf)
    if cases is None:
        vlib.report_violation(ctx, "model-driver-desync", {"stream": "http"}, found_input=False)
        return found
    vlib.histogram(ctx, cases)
    ctx.traces_validated += len(cases)
    reported = {}
    for c in cases:
        cfgl = [vlib.strip_obs(t) for t, _ in c["ops"] if t.split()[:1] == ["cfg"]]
        for idx, v in failing_lines(c):
            sig = signature(c, idx, v, table)
            if vlib.match_known(ctx.pid, sig):
                vlib.report_violation(ctx, "known", {}, signature=sig)
                continue
            found = True
            if sig in reported or len(reported) >= max_reports:
                continue
            reported[sig] = 1
            t = c["ops"][idx][0]
            vlib.report_violation(ctx, "implementation-vs-oracle", {
                "stream": "http", "harness": "http", "case": c["id"],
                "ops": cfgl + [vlib.strip_obs(t)], "trace": [f"{t}  ## {v}"], "verdict": v, "request": t,
                "replay_cmd": f"./check {ctx.pid} --replay <this file>",
            }, signature=sig)
    return found


def failing_lines(case):
    return [(i, v) for i, (t, v) in enumerate(case["ops"]) if v.startswith("FAIL") or v.startswith("bad-op")]


def minimise(ctx, case, idx, verdict, tag):
    """Configuration + logins + the failing request; falls back to the prefix of the case."""
    ops = [vlib.strip_obs(t) for t, _ in case["ops"][: idx + 1]]
    cls = vlib.fail_class(verdict)
    keep = [o for o in ops[:-1] if o.split()[0] in CONFIG_WORDS or "segs=auth/login" in o]
    for n, cand in enumerate((keep + [ops[-1]], ops)):
        c = exec_ops(ctx, case["id"], cand, f"{tag}-min{n}")
        if c.get("crash"):
            continue
        for i, v in failing_lines(c):
            if vlib.fail_class(v) == cls:
                return c, i, v
    return case, idx, verdict


def run_stream(ctx, only, corpus_prefix, max_reports=3):
    """Runs corpus + generated cases. Returns True if a failing input that is not a recorded finding was
    found (and reported)."""
    table = routes()
    found = False
    traces = []
    if kmodel(ctx) is None:
        ctx.failed_obligations.append("kmodel-build")
        ctx.log("the model driver (kmodel) cannot be built; the correspondence stream is skipped")
        return False
    cdir = vlib.VERIF / "corpus" / "http"
    if cdir.exists():
        for f in sorted(cdir.glob(f"{corpus_prefix}*.ops")):
            tr = ctx.work / f"corpus-{f.stem}.trace"
            r = vlib.run([vlib.hbin("http"), "--ops", str(f), "--out", str(tr)], timeout=3600)
            if r.returncode != 0:
                ctx.log(f"harness failed on corpus {f}: {r.stdout[-1500:]}")
                vlib.report_violation(ctx, "harness-crash", {"stream": "http", "corpus": str(f), "output": r.stdout[-3000:]},
                                      signature="crash:http:corpus")
                found = True
                continue
            traces.append(tr)
    tr = ctx.work / "http.trace"
    r = vlib.run([vlib.hbin("http"), "--seed", str(ctx.seed), "--tier", ctx.tier, "--out", str(tr), f"only={only}"],
                 timeout=6 * 3600)
    if r.returncode != 0:
        ctx.log(f"harness http failed: {r.stdout[-3000:]}")
        vlib.report_violation(ctx, "harness-crash", {"stream": "http", "output": r.stdout[-3000:]}, signature="crash:http")
        found = True
    elif tr.exists():
        traces.append(tr)
    reported = {}
    for tr in traces:
        vf = Path(str(tr) + ".verdict")
        if not run_model(ctx, tr, vf):
            vlib.report_violation(ctx, "model-driver-crash", {"stream": "http"}, found_input=False)
            continue
        cases = vlib.parse_cases(tr, vf)
        if cases is None:
            vlib.report_violation(ctx, "model-driver-desync", {"stream": "http"}, found_input=False)
            continue
        vlib.histogram(ctx, cases)
        ctx.traces_validated += len(cases)
        if cases and not ctx.samples:
            reqs = [(t, v) for t, v in cases[0]["ops"] if t.startswith("req")][:10]
            ctx.samples.append({"stream": "http", "case": cases[0]["id"], "ops": [f"{t}  ## {v}" for t, v in reqs]})
        for c in cases:
            for idx, v in failing_lines(c):
                sig = signature(c, idx, v, table)
                if vlib.match_known(ctx.pid, sig):
                    vlib.report_violation(ctx, "known", {}, signature=sig)
                    continue
                found = True
                cls = sig
                if reported.get(cls, 0) >= 1 or len(reported) >= max_reports:
                    continue
                reported[cls] = 1
                small, si, sv = minimise(ctx, c, idx, v, f"f{len(reported)}")
                ssig = signature(small, si, sv, table)
                kind = "implementation-vs-oracle" if sv.startswith("FAIL oracle") else "model-vs-implementation"
                vlib.report_violation(ctx, kind, {
                    "stream": "http", "harness": "http", "case": small["id"],
                    "ops": [vlib.strip_obs(t) for t, _ in small["ops"][: si + 1]],
                    "trace": [f"{t}  ## {w}" for t, w in small["ops"][: si + 1]][-12:],
                    "verdict": sv,
                    "request": small["ops"][si][0],
                    "replay_cmd": f"./check {ctx.pid} --replay <this file>",
                }, signature=ssig)
    return found


def replay(ctx, data, prop_modules, tables):
    vlib.translate(ctx, tables)
    vlib.build_harness(ctx, ["http"])
    vlib.prove(ctx, prop_modules)
    table = routes()
    c = exec_ops(ctx, data.get("case", "replay"), data["ops"], "replay")
    if c.get("crash"):
        print(c["crash"])
        print(f"VIOLATION property={ctx.pid} replay={ctx.work}/replay.ops")
        return 1
    bad = False
    for i, (t, v) in enumerate(c["ops"]):
        if t.split()[0] in ("role", "user", "norm") and not v.startswith("FAIL"):
            continue
        print(f"{t}  ## {v}")
        if v.startswith("FAIL") or v.startswith("bad-op"):
            sig = signature(c, i, v, table)
            k = vlib.match_known(ctx.pid, sig)
            if k:
                print(f"KNOWN-FINDING: property={ctx.pid} {k['what']}")
            else:
                bad = True
    if bad:
        print(f"VIOLATION property={ctx.pid} replay={ctx.work}/replay.ops")
        return 1
    print("replay: no (new) failure")
    ctx.cleanup()
    return 0
