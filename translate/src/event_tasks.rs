//! Event → follow-up task tables from src/server/mq.rs, plus the task-scheduling
//! sites of the publication server manager.

use std::collections::BTreeMap;
use std::path::Path;
use syn::visit::Visit;
use crate::util::*;

/// Collects `(Task::Variant, scheduling method)` pairs: the task is the first argument of a
/// `.schedule(…)`, `.schedule_missing(…)` or `.schedule_and_finish_existing(…)` call; a
/// `Task::Variant` mentioned anywhere else is recorded with method `Mention`.
struct TaskRefs(Vec<String>);

fn first_task(e: &syn::Expr) -> Option<String> {
    struct T(Option<String>);
    impl<'a> Visit<'a> for T {
        fn visit_path(&mut self, p: &'a syn::Path) {
            if self.0.is_none() && p.segments.len() == 2 && p.segments[0].ident == "Task" {
                self.0 = Some(p.segments[1].ident.to_string());
            }
        }
    }
    let mut t = T(None);
    t.visit_expr(e);
    t.0
}

impl TaskRefs {
    fn push(&mut self, task: &str, method: &str) {
        let v = format!("(.{task}, .{method})");
        if !self.0.contains(&v) {
            self.0.push(v);
        }
    }
}

impl<'ast> Visit<'ast> for TaskRefs {
    fn visit_expr_method_call(&mut self, m: &'ast syn::ExprMethodCall) {
        let name = m.method.to_string();
        let method = match name.as_str() {
            "schedule" => Some("Schedule"),
            "schedule_missing" => Some("ScheduleMissing"),
            "schedule_and_finish_existing" => Some("ScheduleAndFinishExisting"),
            _ => None,
        };
        if let (Some(method), Some(arg)) = (method, m.args.first()) {
            if let Some(t) = first_task(arg) {
                self.push(&t, method);
                // do not descend into the argument again
                self.visit_expr(&m.receiver);
                return;
            }
        }
        syn::visit::visit_expr_method_call(self, m);
    }
    fn visit_path(&mut self, p: &'ast syn::Path) {
        if p.segments.len() == 2 && p.segments[0].ident == "Task" {
            let v = p.segments[1].ident.to_string();
            self.push(&v, "Mention");
        }
        syn::visit::visit_path(self, p);
    }
}

/// The first `match` found in an expression tree.
struct FirstMatch<'a>(Option<&'a syn::ExprMatch>);

impl<'ast> Visit<'ast> for FirstMatch<'ast> {
    fn visit_expr_match(&mut self, m: &'ast syn::ExprMatch) {
        if self.0.is_none() {
            self.0 = Some(m);
        }
    }
}

fn pat_variants(p: &syn::Pat, out: &mut Vec<String>) {
    match p {
        syn::Pat::Or(o) => o.cases.iter().for_each(|c| pat_variants(c, out)),
        syn::Pat::Struct(s) => out.push(s.path.segments.last().unwrap().ident.to_string()),
        syn::Pat::TupleStruct(s) => out.push(s.path.segments.last().unwrap().ident.to_string()),
        syn::Pat::Path(s) => out.push(s.path.segments.last().unwrap().ident.to_string()),
        syn::Pat::Wild(_) => out.push("_".into()),
        syn::Pat::Paren(p) => pat_variants(&p.pat, out),
        _ => out.push(format!("?{}", compact(p))),
    }
}

fn enum_variants(file: &syn::File, name: &str) -> Vec<String> {
    for item in &file.items {
        if let syn::Item::Enum(e) = item {
            if e.ident == name {
                return e.variants.iter().map(|v| v.ident.to_string()).collect();
            }
        }
    }
    panic!("enum {name} not found");
}

fn arm_table(file: &syn::File, method: &str) -> BTreeMap<String, Vec<String>> {
    let f = find_method(file, "TaskQueue", method).unwrap_or_else(|| panic!("TaskQueue::{method} not found"));
    let mut fm = FirstMatch(None);
    fm.visit_block(&f.block);
    let m = fm.0.unwrap_or_else(|| panic!("no match in {method}"));
    let mut table = BTreeMap::new();
    for arm in &m.arms {
        let mut vs = Vec::new();
        pat_variants(&arm.pat, &mut vs);
        let mut tr = TaskRefs(Vec::new());
        tr.visit_expr(&arm.body);
        for v in vs {
            table.entry(v).or_insert_with(Vec::new).extend(tr.0.iter().cloned());
        }
    }
    table
}

fn emit_fn(out: &mut String, name: &str, ev_ty: &str, variants: &[String], table: &BTreeMap<String, Vec<String>>) {
    out.push_str(&format!("def {name} : {ev_ty} → List (TaskKind × SchedMethod)\n"));
    let default = table.get("_").cloned().unwrap_or_default();
    for v in variants {
        let tasks = table.get(v).cloned().unwrap_or_else(|| default.clone());
        let l = tasks.join(", ");
        out.push_str(&format!("  | .{v} => [{l}]\n"));
    }
    out.push('\n');
}

pub fn run(repo: &Path) -> String {
    let mq = parse_file(repo, "src/server/mq.rs");
    let events = parse_file(repo, "src/server/ca/events.rs");
    let taproxy = parse_file(repo, "src/server/taproxy.rs");
    let pubd = parse_file(repo, "src/server/pubd/manager.rs");

    let tasks = enum_variants(&mq, "Task");
    let ca_events = enum_variants(&events, "CertAuthEvent");
    let ta_events = enum_variants(&taproxy, "TrustAnchorProxyEvent");

    let mut out = lean_header("src/server/mq.rs, src/server/ca/events.rs, src/server/taproxy.rs, src/server/pubd/manager.rs");
    out.push_str("namespace KM.Generated\n\n");
    out.push_str("/-- `enum Task` (mq.rs). -/\ninductive TaskKind where\n");
    for t in &tasks {
        out.push_str(&format!("  | {t}\n"));
    }
    out.push_str("deriving DecidableEq, Repr\n\n");
    out.push_str("/-- How a task is put on the queue: `TaskQueue::schedule` (replace, keep the sooner time),\n`schedule_missing` (only if not pending or running), `schedule_and_finish_existing`; `Mention` = the task\nis named outside such a call. -/\ninductive SchedMethod where\n  | Schedule\n  | ScheduleMissing\n  | ScheduleAndFinishExisting\n  | Mention\nderiving DecidableEq, Repr\n\n");
    out.push_str("/-- `enum CertAuthEvent` (events.rs). -/\ninductive CaEvent where\n");
    for t in &ca_events {
        out.push_str(&format!("  | {t}\n"));
    }
    out.push_str("deriving DecidableEq, Repr\n\n");
    out.push_str("/-- `enum TrustAnchorProxyEvent` (taproxy.rs). -/\ninductive TaProxyEvent where\n");
    for t in &ta_events {
        out.push_str(&format!("  | {t}\n"));
    }
    out.push_str("deriving DecidableEq, Repr\n\n");

    out.push_str("/-- Tasks mentioned in the arm of `schedule_for_ca_event` for each event (pre-save listener). -/\n");
    emit_fn(&mut out, "caPreSaveTasks", "CaEvent", &ca_events, &arm_table(&mq, "schedule_for_ca_event"));
    out.push_str("/-- `cert_auth_post_save_events`. -/\n");
    emit_fn(&mut out, "caPostSaveTasks", "CaEvent", &ca_events, &arm_table(&mq, "cert_auth_post_save_events"));
    out.push_str("/-- `ta_proxy_pre_save_events`. -/\n");
    emit_fn(&mut out, "taPreSaveTasks", "TaProxyEvent", &ta_events, &arm_table(&mq, "ta_proxy_pre_save_events"));
    out.push_str("/-- `ta_proxy_post_save_events`. -/\n");
    emit_fn(&mut out, "taPostSaveTasks", "TaProxyEvent", &ta_events, &arm_table(&mq, "ta_proxy_post_save_events"));

    // RepositoryManager methods and the tasks they schedule
    // per method: is every change of the repository content (`self.content.…`) made BEFORE the first
    // task is scheduled? (a task scheduled first can be run, and found to have nothing to do, before
    // the change it is meant for exists)
    let mut sched_last: Vec<(String, bool)> = Vec::new();
    let mut methods: Vec<(String, Vec<String>)> = Vec::new();
    // per method: the calls on the two persisted stores of the publication server (`self.content.…` =
    // WAL store pubd_objects, `self.access.…` = aggregate store pubd) in source order
    let mut store_calls: Vec<(String, Vec<String>)> = Vec::new();
    let mut store_ctors: Vec<String> = Vec::new();
    for item in &pubd.items {
        if let syn::Item::Impl(imp) = item {
            if compact(&imp.self_ty) != "RepositoryManager" {
                continue;
            }
            for it in &imp.items {
                if let syn::ImplItem::Fn(f) = it {
                    let mut tr = TaskRefs(Vec::new());
                    tr.visit_block(&f.block);
                    methods.push((f.sig.ident.to_string(), tr.0));
                    let body = compact(&f.block);
                    let first_sched = body.find(".tasks().schedule");
                    let last_content = body.rfind("self.content.");
                    let ok = match (first_sched, last_content) {
                        (Some(s), Some(c)) => c < s,
                        _ => true,
                    };
                    sched_last.push((f.sig.ident.to_string(), ok));
                    let mut calls: Vec<(usize, String)> = Vec::new();
                    for (prefix, kind) in [("self.content.", "content"), ("self.access.", "access")] {
                        let mut from = 0;
                        while let Some(i) = body[from..].find(prefix) {
                            let start = from + i + prefix.len();
                            let name: String = body[start..].chars().take_while(|c| c.is_alphanumeric() || *c == '_').collect();
                            if !name.is_empty() && body[start + name.len()..].starts_with('(') {
                                calls.push((from + i, format!("{kind}_{name}")));
                            }
                            from = start;
                        }
                    }
                    calls.sort();
                    let calls: Vec<String> = calls.into_iter().map(|c| c.1).collect();
                    for c in &calls {
                        if !store_ctors.contains(c) {
                            store_ctors.push(c.clone());
                        }
                    }
                    store_calls.push((f.sig.ident.to_string(), calls));
                }
            }
        }
    }
    out.push_str("/-- Methods of `RepositoryManager` (pubd/manager.rs). -/\ninductive PubdMethod where\n");
    for (m, _) in &methods {
        out.push_str(&format!("  | {}\n", lean_ident(m)));
    }
    out.push_str("deriving DecidableEq, Repr\n\n");
    out.push_str("/-- Tasks scheduled by each `RepositoryManager` method. -/\n");
    out.push_str("def pubdMethodTasks : PubdMethod → List (TaskKind × SchedMethod)\n");
    for (m, ts) in &methods {
        let l = ts.join(", ");
        out.push_str(&format!("  | .{} => [{l}]\n", lean_ident(m)));
    }
    out.push_str("\n/-- In the method's source every `self.content.…` call precedes the first `tasks().schedule…` call. -/\n");
    out.push_str("def pubdScheduleAfterChange : PubdMethod → Bool\n");
    for (m, ok) in &sched_last {
        out.push_str(&format!("  | .{} => {ok}\n", lean_ident(m)));
    }
    store_ctors.sort();
    out.push_str("\n/-- Calls on the publication server's two persisted stores: `content_<m>` = `self.content.<m>(…)` (WAL store\n`pubd_objects`), `access_<m>` = `self.access.<m>(…)` (aggregate store `pubd`). -/\ninductive PubdStoreCall where\n");
    for c in &store_ctors {
        out.push_str(&format!("  | {}\n", lean_ident(c)));
    }
    out.push_str("deriving DecidableEq, Repr\n\n");
    out.push_str("/-- The store calls of each `RepositoryManager` method in source order. -/\n");
    out.push_str("def pubdStoreCalls : PubdMethod → List PubdStoreCall\n");
    for (m, cs) in &store_calls {
        let l = cs.iter().map(|c| format!(".{}", lean_ident(c))).collect::<Vec<_>>().join(", ");
        out.push_str(&format!("  | .{} => [{l}]\n", lean_ident(m)));
    }
    out.push_str("\nend KM.Generated\n");
    out
}
