//! `reschedule_tasks_at_startup` (src/server/mq.rs): the test on the number of
//! running keys that guards the re-queue loop.

use std::path::Path;
use crate::util::*;

pub fn run(repo: &Path) -> String {
    let file = parse_file(repo, "src/server/mq.rs");
    let f = find_method(&file, "TaskQueue", "reschedule_tasks_at_startup")
        .expect("TaskQueue::reschedule_tasks_at_startup not found");
    // The first statement at the top level of the body that is an `if` or a `for`.
    let mut guard: Option<(String, String)> = None;
    for stmt in &f.block.stmts {
        let expr = match stmt {
            syn::Stmt::Expr(e, _) => e,
            _ => continue,
        };
        match expr {
            syn::Expr::If(i) => {
                let c = compact(&i.cond);
                guard = Some((c.clone(), translate(&c)));
                break;
            }
            syn::Expr::ForLoop(_) => {
                guard = Some(("(no guard: loop runs unconditionally)".into(), "true".into()));
                break;
            }
            _ => {}
        }
    }
    let (src, lean) = guard.unwrap_or((
        "(neither `if` nor `for` found)".into(),
        "false".into(),
    ));
    let mut out = lean_header("src/server/mq.rs (TaskQueue::reschedule_tasks_at_startup)");
    out.push_str("namespace KM.Generated\n");
    out.push_str(&format!("/-- source condition: `{src}` (n = number of running keys) -/\n"));
    out.push_str(&format!("def startupGuard (n : Nat) : Bool := {lean}\n"));
    out.push_str("end KM.Generated\n");
    out
}

fn translate(c: &str) -> String {
    for (pat, f) in [
        ("keys.len()>", "decide (n > {})"),
        ("keys.len()>=", "decide (n ≥ {})"),
        ("keys.len()!=", "decide (n ≠ {})"),
    ] {
        if let Some(rest) = c.strip_prefix(pat) {
            if !rest.starts_with('=') {
                if let Ok(k) = rest.parse::<u64>() {
                    return f.replace("{}", &k.to_string());
                }
            }
        }
    }
    if c == "!keys.is_empty()" {
        return "!(n == 0)".into();
    }
    // Not a recognised form: the obligation over this table will not check and the
    // check falls back to searching with the harness.
    format!("false /- UNTRANSLATED: {c} -/")
}
