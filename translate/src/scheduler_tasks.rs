//! Scheduler tables from src/server/scheduler.rs: which handler runs for each
//! task, which `TaskResult`s a handler can return, and what
//! `queue_start_tasks` schedules.

use std::collections::BTreeMap;
use std::path::Path;
use syn::visit::Visit;
use crate::util::*;

#[derive(Default)]
struct Results(Vec<String>);

impl Results {
    fn push(&mut self, s: String) {
        if !self.0.contains(&s) {
            self.0.push(s);
        }
    }
}

fn task_in(e: &syn::Expr) -> Option<String> {
    struct T(Option<String>);
    impl<'a> Visit<'a> for T {
        fn visit_path(&mut self, p: &'a syn::Path) {
            if self.0.is_none() && p.segments.len() == 2 && p.segments[0].ident == "Task" {
                self.0 = Some(p.segments[1].ident.to_string());
            }
        }
    }
    let mut t = T(None);
    t.visit_expr(e);
    t.0
}

impl<'ast> Visit<'ast> for Results {
    fn visit_expr_call(&mut self, c: &'ast syn::ExprCall) {
        if let syn::Expr::Path(p) = &*c.func {
            let segs: Vec<String> = p.path.segments.iter().map(|s| s.ident.to_string()).collect();
            if segs == ["TaskResult", "FollowUp"] {
                let t = c.args.first().and_then(task_in).unwrap_or_else(|| "UNKNOWN".into());
                self.push(format!(".followUp .{t}"));
            } else if segs == ["TaskResult", "Reschedule"] {
                self.push(".reschedule".into());
            }
        }
        syn::visit::visit_expr_call(self, c);
    }
    fn visit_expr_path(&mut self, p: &'ast syn::ExprPath) {
        let segs: Vec<String> = p.path.segments.iter().map(|s| s.ident.to_string()).collect();
        if segs == ["TaskResult", "Done"] {
            self.push(".done".into());
        }
        syn::visit::visit_expr_path(self, p);
    }
    // nested fn items are helper functions of the same handler: keep visiting
}

/// `krill.tasks().schedule_missing(Task::X …)` / `.schedule(Task::X …)` calls.
struct Sched {
    missing: Vec<String>,
    always: Vec<String>,
    /// the conditions / loops around the statement being visited (innermost last)
    ctx: Vec<String>,
    /// (task, guards) for every scheduling call
    guarded: Vec<(String, Vec<String>)>,
}

impl<'ast> Visit<'ast> for Sched {
    fn visit_expr_method_call(&mut self, m: &'ast syn::ExprMethodCall) {
        let name = m.method.to_string();
        if name == "schedule_missing" || name == "schedule" || name == "schedule_and_finish_existing" {
            if let Some(t) = m.args.first().and_then(task_in) {
                let v = if name == "schedule_missing" { &mut self.missing } else { &mut self.always };
                if !v.contains(&t) {
                    v.push(t.clone());
                }
                self.guarded.push((t, self.ctx.clone()));
            }
        }
        syn::visit::visit_expr_method_call(self, m);
    }
    // what a scheduling call is nested in: `if`, `for`, `while`, `match`, closures
    fn visit_expr_if(&mut self, i: &'ast syn::ExprIf) {
        self.visit_expr(&i.cond);
        self.ctx.push(format!("if {}", compact(&*i.cond)));
        self.visit_block(&i.then_branch);
        self.ctx.pop();
        if let Some((_, e)) = &i.else_branch {
            self.ctx.push(format!("else of if {}", compact(&*i.cond)));
            self.visit_expr(e);
            self.ctx.pop();
        }
    }
    fn visit_expr_for_loop(&mut self, f: &'ast syn::ExprForLoop) {
        self.ctx.push(format!("for {} in {}", compact(&*f.pat), compact(&*f.expr)));
        self.visit_block(&f.body);
        self.ctx.pop();
    }
    fn visit_expr_while(&mut self, w: &'ast syn::ExprWhile) {
        self.ctx.push(format!("while {}", compact(&*w.cond)));
        self.visit_block(&w.body);
        self.ctx.pop();
    }
    fn visit_expr_match(&mut self, m: &'ast syn::ExprMatch) {
        self.visit_expr(&m.expr);
        for arm in &m.arms {
            self.ctx.push(format!("match {} arm {}", compact(&*m.expr), compact(&arm.pat)));
            self.visit_expr(&arm.body);
            self.ctx.pop();
        }
    }
    fn visit_expr_closure(&mut self, c: &'ast syn::ExprClosure) {
        self.ctx.push("closure".into());
        self.visit_expr(&c.body);
        self.ctx.pop();
    }
}

fn top_fn<'a>(file: &'a syn::File, name: &str) -> Option<&'a syn::ItemFn> {
    file.items.iter().find_map(|i| match i {
        syn::Item::Fn(f) if f.sig.ident == name => Some(f),
        _ => None,
    })
}

pub fn run(repo: &Path) -> String {
    let file = parse_file(repo, "src/server/scheduler.rs");
    let pt = top_fn(&file, "process_task").expect("process_task");
    // find the match on `task`
    struct FM<'a>(Option<&'a syn::ExprMatch>);
    impl<'a> Visit<'a> for FM<'a> {
        fn visit_expr_match(&mut self, m: &'a syn::ExprMatch) {
            if self.0.is_none() {
                self.0 = Some(m);
            }
        }
    }
    let mut fm = FM(None);
    fm.visit_block(&pt.block);
    let m = fm.0.expect("match in process_task");
    let mut handler: BTreeMap<String, Vec<String>> = BTreeMap::new();
    let mut order = Vec::new();
    for arm in &m.arms {
        let variant = match &arm.pat {
            syn::Pat::Struct(s) => s.path.segments.last().unwrap().ident.to_string(),
            syn::Pat::Path(s) => s.path.segments.last().unwrap().ident.to_string(),
            syn::Pat::TupleStruct(s) => s.path.segments.last().unwrap().ident.to_string(),
            p => format!("?{}", compact(p)),
        };
        // results: inline results in the arm + results of every top-level fn called in the arm
        let mut res = Results::default();
        res.visit_expr(&arm.body);
        struct Calls(Vec<String>);
        impl<'a> Visit<'a> for Calls {
            fn visit_expr_call(&mut self, c: &'a syn::ExprCall) {
                if let syn::Expr::Path(p) = &*c.func {
                    if p.path.segments.len() == 1 {
                        self.0.push(p.path.segments[0].ident.to_string());
                    }
                }
                syn::visit::visit_expr_call(self, c);
            }
        }
        let mut calls = Calls(Vec::new());
        calls.visit_expr(&arm.body);
        for c in calls.0 {
            if let Some(f) = top_fn(&file, &c) {
                res.visit_block(&f.block);
            }
        }
        order.push(variant.clone());
        handler.insert(variant, res.0);
    }
    let qs = top_fn(&file, "queue_start_tasks").expect("queue_start_tasks");
    let mut s = Sched { missing: vec![], always: vec![], ctx: vec![], guarded: vec![] };
    s.visit_block(&qs.block);

    let mut out = lean_header("src/server/scheduler.rs (process_task, task handlers, queue_start_tasks)");
    out.push_str("import KrillModel.Generated.EventTasks\nnamespace KM.Generated\n\n");
    out.push_str("inductive ResultKind where\n  | done\n  | followUp (t : TaskKind)\n  | reschedule\nderiving DecidableEq, Repr\n\n");
    out.push_str("/-- Every `TaskResult` the handler of a task can return (syntactically). -/\n");
    out.push_str("def taskResults : TaskKind → List ResultKind\n");
    for v in &order {
        out.push_str(&format!("  | .{v} => [{}]\n", handler[v].join(", ")));
    }
    out.push_str("\n/-- Tasks `queue_start_tasks` adds with `schedule_missing`. -/\n");
    out.push_str(&format!("def startMissing : List TaskKind := [{}]\n", s.missing.iter().map(|t| format!(".{t}")).collect::<Vec<_>>().join(", ")));
    out.push_str("\n/-- Tasks `queue_start_tasks` adds with `schedule`. -/\n");
    out.push_str(&format!("def startAlways : List TaskKind := [{}]\n", s.always.iter().map(|t| format!(".{t}")).collect::<Vec<_>>().join(", ")));
    // where each scheduling call of `queue_start_tasks` sits: the enclosing loops and conditions, outermost first
    out.push_str("\n/-- Every scheduling call of `queue_start_tasks` with the loops / conditions it is nested in (outermost first; `[]` = a plain statement of the function body, executed on every start). -/\n");
    out.push_str("def startGuards : List (TaskKind × List String) := [\n");
    let rows: Vec<String> = s
        .guarded
        .iter()
        .map(|(t, g)| format!("  (.{t}, [{}])", g.iter().map(|x| format!("{:?}", x)).collect::<Vec<_>>().join(", ")))
        .collect();
    out.push_str(&rows.join(",\n"));
    out.push_str("]\n");
    out.push_str("\nend KM.Generated\n");
    out
}
