//! `Generated/Perm.lean`: the `Permission` enum, the built-in permission sets
//! (permission.rs `mod policy`), the built-in roles and the shape of
//! `Role::is_allowed` / `Role::simple` / `Role::with_resources` (roles.rs), the
//! default role map (config.rs) and the admin-token comparison
//! (providers/admin_token.rs).
//!
//! Anything that is not of the recognised form is emitted as an `unknown`
//! marker so that the theorems over this file stop checking.

use std::path::Path;
use syn::parse::{Parse, ParseStream, Parser};
use syn::punctuated::Punctuated;
use syn::visit::Visit;
use crate::util::*;

struct PermEntry {
    ident: syn::Ident,
    text: syn::LitStr,
}

impl Parse for PermEntry {
    fn parse(input: ParseStream) -> syn::Result<Self> {
        let content;
        syn::parenthesized!(content in input);
        let ident: syn::Ident = content.parse()?;
        content.parse::<syn::Token![,]>()?;
        let text: syn::LitStr = content.parse()?;
        Ok(PermEntry { ident, text })
    }
}

pub struct Perms {
    pub all: Vec<(String, String)>,
}

pub fn permissions(repo: &Path) -> Perms {
    let file = parse_file(repo, "src/daemon/http/auth/permission.rs");
    for item in &file.items {
        if let syn::Item::Macro(m) = item {
            if m.mac.path.is_ident("define_permission") {
                let parser = Punctuated::<PermEntry, syn::Token![,]>::parse_terminated;
                let entries = parser.parse2(m.mac.tokens.clone()).expect("define_permission! entries");
                return Perms {
                    all: entries.into_iter().map(|e| (e.ident.to_string(), e.text.value())).collect(),
                };
            }
        }
    }
    panic!("define_permission! invocation not found in permission.rs");
}

/// `Some(list)` for a recognised permission-set expression.
fn set_expr(e: &syn::Expr, perms: &Perms) -> Option<Vec<String>> {
    let c = compact(e);
    if c == "Self(u32::MAX)" {
        return Some(perms.all.iter().map(|p| p.0.clone()).collect());
    }
    if c == "Self(0)" {
        return Some(Vec::new());
    }
    if let syn::Expr::Call(call) = e {
        if compact(&call.func) == "Self::from_permissions" && call.args.len() == 1 {
            if let syn::Expr::Reference(r) = &call.args[0] {
                if let syn::Expr::Array(a) = &*r.expr {
                    let mut out = Vec::new();
                    for el in &a.elems {
                        let name = compact(el);
                        let name = name.rsplit("::").next().unwrap().to_string();
                        if !perms.all.iter().any(|p| p.0 == name) {
                            return None;
                        }
                        if !out.contains(&name) {
                            out.push(name);
                        }
                    }
                    return Some(out);
                }
            }
        }
    }
    None
}

struct FnBodies<'a>(Vec<&'a syn::ImplItemFn>);
impl<'a> Visit<'a> for FnBodies<'a> {
    fn visit_impl_item_fn(&mut self, f: &'a syn::ImplItemFn) {
        self.0.push(f);
    }
}

fn tail_expr(b: &syn::Block) -> Option<&syn::Expr> {
    match b.stmts.last() {
        Some(syn::Stmt::Expr(e, None)) => Some(e),
        _ => None,
    }
}

fn perm_list(l: &[String]) -> String {
    format!("[{}]", l.iter().map(|p| format!(".{p}")).collect::<Vec<_>>().join(", "))
}

/// Which set an `is_allowed` leaf expression consults.
fn consulted(e: &syn::Expr, bound: &str) -> &'static str {
    let c = compact(e);
    if c == format!("{bound}.has(permission)") && !bound.is_empty() {
        ".specific"
    } else if c == "self.any.has(permission)" {
        ".any"
    } else if c == "self.none.has(permission)" {
        ".none"
    } else {
        ".unknown"
    }
}

fn some_binding(p: &syn::Pat) -> Option<String> {
    if let syn::Pat::TupleStruct(ts) = p {
        if compact(&ts.path) == "Some" && ts.elems.len() == 1 {
            if let syn::Pat::Ident(i) = &ts.elems[0] {
                return Some(i.ident.to_string());
            }
        }
    }
    None
}

/// (given & entry, given & no entry, not given)
fn is_allowed_shape(f: &syn::ImplItemFn) -> (&'static str, &'static str, &'static str) {
    let unknown = (".unknown", ".unknown", ".unknown");
    let Some(syn::Expr::Match(outer)) = tail_expr(&f.block) else { return unknown };
    if compact(&outer.expr) != "resource" || outer.arms.len() != 2 || f.block.stmts.len() != 1 {
        return unknown;
    }
    let mut res = unknown;
    for arm in &outer.arms {
        if arm.guard.is_some() {
            return unknown;
        }
        if let Some(var) = some_binding(&arm.pat) {
            // inner match on self.resources.get(var)
            let mut body = &*arm.body;
            if let syn::Expr::Block(b) = body {
                if b.block.stmts.len() != 1 {
                    return unknown;
                }
                match tail_expr(&b.block) {
                    Some(e) => body = e,
                    None => return unknown,
                }
            }
            let syn::Expr::Match(inner) = body else { return unknown };
            if compact(&inner.expr) != format!("self.resources.get({var})") || inner.arms.len() != 2 {
                return unknown;
            }
            for ia in &inner.arms {
                if ia.guard.is_some() {
                    return unknown;
                }
                if let Some(b) = some_binding(&ia.pat) {
                    res.0 = consulted(&ia.body, &b);
                } else if compact(&ia.pat) == "None" {
                    res.1 = consulted(&ia.body, "");
                } else {
                    return unknown;
                }
            }
        } else if compact(&arm.pat) == "None" {
            let mut body = &*arm.body;
            if let syn::Expr::Block(b) = body {
                if b.block.stmts.len() != 1 {
                    return unknown;
                }
                match tail_expr(&b.block) {
                    Some(e) => body = e,
                    None => return unknown,
                }
            }
            res.2 = consulted(body, "");
        } else {
            return unknown;
        }
    }
    res
}

/// The source of a field in a `Self { none: .., any: .., resources: .. }` constructor.
fn ctor_shape(f: &syn::ImplItemFn) -> (String, String, String) {
    let unk = || (".unknown".to_string(), ".unknown".to_string(), ".unknown".to_string());
    if f.block.stmts.len() != 1 {
        return unk();
    }
    let Some(syn::Expr::Struct(s)) = tail_expr(&f.block) else { return unk() };
    let mut none = ".unknown".to_string();
    let mut any = ".unknown".to_string();
    let mut res = ".unknown".to_string();
    for fv in &s.fields {
        let name = compact(&fv.member);
        let c = compact(&fv.expr);
        let src = if c == "permissions" {
            ".arg"
        } else if c == "PermissionSet::NONE" {
            ".empty"
        } else if c == "Default::default()" {
            ".empty"
        } else if c == "resources.into_iter().map(|handle|{(handle,permissions)}).collect()" {
            ".arg"
        } else {
            ".unknown"
        };
        match name.as_str() {
            "none" => none = src.into(),
            "any" => any = src.into(),
            "resources" => res = src.into(),
            _ => return unk(),
        }
    }
    (none, any, res)
}

pub fn run(repo: &Path) -> String {
    let perms = permissions(repo);
    let pfile = parse_file(repo, "src/daemon/http/auth/permission.rs");
    let rfile = parse_file(repo, "src/daemon/http/auth/roles.rs");
    let cfile = parse_file(repo, "src/config.rs");
    let afile = parse_file(repo, "src/daemon/http/auth/providers/admin_token.rs");

    let mut complete = true;
    let mut notes: Vec<String> = Vec::new();

    let mut out = lean_header(
        "src/daemon/http/auth/{permission,roles}.rs, src/daemon/http/auth/providers/admin_token.rs, src/config.rs",
    );
    out.push_str("namespace KM.Generated\n\n");
    out.push_str("/-- `enum Permission` (`define_permission!`, permission.rs). -/\ninductive Permission where\n");
    for (p, _) in &perms.all {
        out.push_str(&format!("  | {p}\n"));
    }
    out.push_str("deriving DecidableEq, Repr\n\n");
    out.push_str("def Permission.all : List Permission :=\n  ");
    out.push_str(&perm_list(&perms.all.iter().map(|p| p.0.clone()).collect::<Vec<_>>()));
    out.push_str("\n\n/-- The name used in configuration files. -/\ndef Permission.text : Permission → String\n");
    for (p, t) in &perms.all {
        out.push_str(&format!("  | .{p} => {}\n", lean_str(t)));
    }
    out.push('\n');

    // mask semantics of PermissionSet
    let has = find_method(&pfile, "PermissionSet", "has").map(|f| compact(&f.block)).unwrap_or_default();
    let mask = find_method(&pfile, "PermissionSet", "mask").map(|f| compact(&f.block)).unwrap_or_default();
    let mask_ok = has == "{self.0&Self::mask(permission)!=0}" && mask == "{1u32<<(permissionasu32)}";
    out.push_str("/-- `PermissionSet::has` is `self.0 & (1u32 << permission) != 0`: a set of permissions as long as\n");
    out.push_str("there are at most 32 of them. -/\n");
    out.push_str(&format!("def maskSemanticsRecognised : Bool := {}\n\n", mask_ok));
    if !mask_ok {
        notes.push(format!("PermissionSet::has/mask not recognised: has={has} mask={mask}"));
    }

    // policy constants
    let mut sets: Vec<(String, Option<Vec<String>>)> = Vec::new();
    for item in &pfile.items {
        if let syn::Item::Mod(m) = item {
            if m.ident != "policy" {
                continue;
            }
            if let Some((_, items)) = &m.content {
                for it in items {
                    if let syn::Item::Impl(imp) = it {
                        if compact(&imp.self_ty) != "PermissionSet" {
                            continue;
                        }
                        for ii in &imp.items {
                            if let syn::ImplItem::Const(c) = ii {
                                sets.push((c.ident.to_string(), set_expr(&c.expr, &perms)));
                            }
                        }
                    }
                }
            }
        }
    }
    out.push_str("/-- The named permission sets of `mod policy` (permission.rs). -/\ninductive PermSetName where\n");
    for (n, _) in &sets {
        out.push_str(&format!("  | {n}\n"));
    }
    out.push_str("  | unknownSet\nderiving DecidableEq, Repr\n\n");
    out.push_str("def permSet : PermSetName → List Permission\n");
    for (n, v) in &sets {
        match v {
            Some(l) => out.push_str(&format!("  | .{n} => {}\n", perm_list(l))),
            None => {
                complete = false;
                notes.push(format!("permission set {n} is not of a recognised form"));
                out.push_str(&format!("  | .{n} => [] -- UNTRANSLATED\n"));
            }
        }
    }
    out.push_str("  | .unknownSet => []\n\n");

    // built-in roles: zero-argument constructors `Self::simple(PermissionSet::X)`
    let mut builtin: Vec<(String, String)> = Vec::new();
    let mut fns = FnBodies(Vec::new());
    for item in &rfile.items {
        if let syn::Item::Impl(imp) = item {
            if compact(&imp.self_ty) == "Role" && imp.trait_.is_none() {
                fns.visit_item_impl(imp);
            }
        }
    }
    for f in &fns.0 {
        if !f.sig.inputs.is_empty() {
            continue;
        }
        let set = match tail_expr(&f.block) {
            Some(e) => {
                let c = compact(e);
                c.strip_prefix("Self::simple(PermissionSet::")
                    .and_then(|r| r.strip_suffix(')'))
                    .filter(|n| sets.iter().any(|s| s.0 == *n))
                    .map(|s| s.to_string())
            }
            None => None,
        };
        match set {
            Some(s) if f.block.stmts.len() == 1 => builtin.push((f.sig.ident.to_string(), s)),
            _ => {
                complete = false;
                notes.push(format!("Role::{} is not `Self::simple(PermissionSet::X)`", f.sig.ident));
                builtin.push((f.sig.ident.to_string(), "unknownSet".into()));
            }
        }
    }
    out.push_str("/-- The built-in roles of roles.rs (`Role::admin()` …), each `Role::simple` of a named set. -/\n");
    out.push_str("inductive BuiltinRole where\n");
    for (n, _) in &builtin {
        out.push_str(&format!("  | {}\n", lean_ident(n)));
    }
    out.push_str("deriving DecidableEq, Repr\n\n");
    out.push_str("def builtinRoleSet : BuiltinRole → PermSetName\n");
    for (n, s) in &builtin {
        out.push_str(&format!("  | .{} => .{s}\n", lean_ident(n)));
    }
    out.push('\n');

    // shapes
    out.push_str("/-- Which permission set `Role::is_allowed` consults. -/\n");
    out.push_str("inductive Consulted where\n  | specific | any | none | unknown\nderiving DecidableEq, Repr\n\n");
    let shape = fns
        .0
        .iter()
        .find(|f| f.sig.ident == "is_allowed")
        .map(|f| is_allowed_shape(f))
        .unwrap_or((".unknown", ".unknown", ".unknown"));
    out.push_str("/-- `Role::is_allowed` (roles.rs): resource given and the role has an entry for it / given, no\n");
    out.push_str("entry / no resource given. -/\n");
    out.push_str("def isAllowedConsults : (resourceGiven : Bool) → (hasEntry : Bool) → Consulted\n");
    out.push_str(&format!("  | true, true => {}\n  | true, false => {}\n  | false, _ => {}\n\n", shape.0, shape.1, shape.2));

    out.push_str("/-- Where a field of a `Role` constructor comes from: the `permissions` argument or the empty set\n");
    out.push_str("(`PermissionSet::NONE` / no resource entries). -/\n");
    out.push_str("inductive SetSrc where\n  | arg | empty | unknown\nderiving DecidableEq, Repr\n\n");
    out.push_str("structure CtorShape where\n  none : SetSrc\n  any : SetSrc\n  perResource : SetSrc\nderiving DecidableEq, Repr\n\n");
    for (fname, lname) in [("simple", "roleSimple"), ("with_resources", "roleWithResources")] {
        let s = fns
            .0
            .iter()
            .find(|f| f.sig.ident == fname)
            .map(|f| ctor_shape(f))
            .unwrap_or((".unknown".into(), ".unknown".into(), ".unknown".into()));
        out.push_str(&format!("/-- `Role::{fname}` -/\ndef {lname} : CtorShape := ⟨{}, {}, {}⟩\n\n", s.0, s.1, s.2));
    }
    // From<RoleConf>
    let mut conf_ok = false;
    for item in &rfile.items {
        if let syn::Item::Impl(imp) = item {
            if imp.trait_.as_ref().map(|t| compact(&t.1)) == Some("From<RoleConf>".into()) {
                let c = compact(imp);
                conf_ok = c.contains(
                    "matchsrc.cas{Some(cas)=>Self::with_resources(src.permissions,cas),None=>Self::simple(src.permissions)}",
                );
            }
        }
    }
    out.push_str("/-- `From<RoleConf> for Role`: `cas = Some(list)` uses `with_resources`, otherwise `simple`. -/\n");
    out.push_str(&format!("def roleConfRecognised : Bool := {conf_ok}\n\n"));

    // default role map (config.rs ConfigDefaults::auth_roles)
    let mut defaults: Vec<(String, String)> = Vec::new();
    if let Some(f) = find_method(&cfile, "ConfigDefaults", "auth_roles") {
        struct Adds<'a>(&'a mut Vec<(String, String)>);
        impl<'a, 'ast> Visit<'ast> for Adds<'a> {
            fn visit_expr_method_call(&mut self, m: &'ast syn::ExprMethodCall) {
                if m.method == "add" && m.args.len() == 2 {
                    if let syn::Expr::Lit(syn::ExprLit { lit: syn::Lit::Str(s), .. }) = &m.args[0] {
                        let c = compact(&m.args[1]);
                        let role = c.strip_prefix("Role::").and_then(|r| r.strip_suffix("()")).unwrap_or("?").to_string();
                        self.0.push((s.value(), role));
                    }
                }
                syn::visit::visit_expr_method_call(self, m);
            }
        }
        Adds(&mut defaults).visit_block(&f.block);
    }
    out.push_str("/-- `ConfigDefaults::auth_roles()` (config.rs): role name → built-in role. -/\n");
    out.push_str("def defaultAuthRoles : List (String × Option BuiltinRole) := [");
    out.push_str(
        &defaults
            .iter()
            .map(|(n, r)| {
                if builtin.iter().any(|b| &b.0 == r) {
                    format!("({}, some .{})", lean_str(n), lean_ident(r))
                } else {
                    format!("({}, none)", lean_str(n))
                }
            })
            .collect::<Vec<_>>()
            .join(", "),
    );
    out.push_str("]\n\n");

    // admin token provider
    let mut cmp = ".unknown";
    let mut admin_role = "none".to_string();
    let mut admin_user = String::new();
    if let Some(f) = find_method(&afile, "AuthProvider", "authenticate") {
        struct M<'a>(Option<&'a syn::ExprMatch>);
        impl<'a> Visit<'a> for M<'a> {
            fn visit_expr_match(&mut self, m: &'a syn::ExprMatch) {
                if self.0.is_none() && compact(&m.expr) == "httpclient::get_bearer_token(request)" {
                    self.0 = Some(m);
                }
                syn::visit::visit_expr_match(self, m);
            }
        }
        let mut mm = M(None);
        mm.visit_block(&f.block);
        if let Some(m) = mm.0 {
            let arms: Vec<(String, String, String)> = m
                .arms
                .iter()
                .map(|a| {
                    (
                        compact(&a.pat),
                        a.guard.as_ref().map(|g| compact(&g.1)).unwrap_or_default(),
                        compact(&a.body),
                    )
                })
                .collect();
            if arms.len() == 3
                && arms[0].0 == "Some(token)"
                && arms[0].1 == "token==self.required_token"
                && arms[0].2.starts_with("{Ok(Some((AuthInfo::user(self.user_id.clone(),self.role.clone()),None)))}")
                && arms[1].0 == "Some(_)"
                && arms[1].1.is_empty()
                && arms[1].2.starts_with("Err(ApiAuthError::ApiInvalidCredentials(")
                && arms[2].0 == "None"
                && arms[2].2 == "Ok(None)"
            {
                cmp = ".equal";
            }
        }
    }
    if let Some(f) = find_method(&afile, "AuthProvider", "new") {
        let c = compact(&f.block);
        if c.contains("required_token:config.admin_token.clone()") {
            if let Some(i) = c.find("role:Role::") {
                let rest = &c[i + "role:Role::".len()..];
                if let Some(j) = rest.find("()") {
                    let r = &rest[..j];
                    if builtin.iter().any(|b| b.0 == r) {
                        admin_role = format!("some .{}", lean_ident(r));
                    }
                }
            }
            if let Some(i) = c.find("user_id:\"") {
                let rest = &c[i + "user_id:\"".len()..];
                if let Some(j) = rest.find('"') {
                    admin_user = rest[..j].to_string();
                }
            }
        }
    }
    out.push_str("/-- How the admin-token provider compares the bearer token with the configured one. -/\n");
    out.push_str("inductive TokenCompare where\n  | equal | unknown\nderiving DecidableEq, Repr\n\n");
    out.push_str(&format!("def adminTokenCompare : TokenCompare := {cmp}\n"));
    out.push_str(&format!("def adminTokenRole : Option BuiltinRole := {admin_role}\n"));
    out.push_str(&format!("def adminTokenUser : String := {}\n\n", lean_str(&admin_user)));

    out.push_str("/-- `false` when some item above could not be translated. -/\n");
    out.push_str(&format!("def permTablesComplete : Bool := {complete}\n"));
    for n in &notes {
        out.push_str(&format!("-- NOTE: {n}\n"));
    }
    out.push_str("\nend KM.Generated\n");
    out
}
