//! `Generated/PureFns.lean`: the *bodies* of selected small pure decision functions of krill,
//! translated statement by statement into Lean definitions (`namespace KM.Gen`).  For every
//! function a theorem `gen_<fn>_eq_model` in `Props/<ID>Src.lean` states that the generated
//! definition equals the hand-written model function the property theorems are about, so any
//! semantic edit of the Rust function changes the generated definition and that theorem stops
//! checking.
//!
//! usage: `ktranslate pure_fns:<ID> <repo> <out>` writes the functions of property `<ID>` only
//! (`Generated/PureFns<ID>.lean`; one file per property, so that a check is not alarmed by a
//! function of another property) and exits 1 when one of them is outside the fragment;
//! `ktranslate pure_fns <repo> <out>` writes all of them into one file (for inspection).  A function outside the fragment gets *no* definition (a
//! marker comment instead), so its equality theorem stops checking as well.
//!
//! Supported fragment (anything else: error naming the function and the construct; never guess):
//!   * `let [mut] x = e;`, `x = e;`, `x += e;` (`-=` only on signed integers), `v.push(e);`
//!   * `if / else if / else` (statement or value), early `return e;`, tail expression
//!   * `match e { pat => e, … }` with patterns `_`, `A | B`, enum variants (payload binders are
//!     only usable through the name map), tuples, literals; no guards
//!   * integer / boolean literals, `== != < <= > >=`, `&& || !`, `+ *`, `-` on signed integers,
//!     `saturating_sub` on unsigned integers, `min` / `max` / `cmp::min` / `cmp::max`, `.into()`
//!     (value-preserving integer conversion: identity)
//!   * `for x in <list> { … break; … }`, one level, `<list>` through the name map: translated to a
//!     structural recursion over the list carrying the `let mut` variables; what follows the
//!     loop becomes `<fn>.after`, reached from `[]` and from `break`; further loops in sequence
//!     (inside `.after`) become `<fn>.loop2` / `.after2`, …; `return e;` inside a loop body ends the function
//!   * the built-in `Option` / `Result`: patterns `Some(p)`, `None`, `Ok(p)`, `Err(p)` (nested, with tuples, `_`
//!     and binders) in `match`; constructors `Some(e)`, `None`, `Ok(e)`, `Err(e)`; `Result<T, E>` ↦ `Except E T`
//!   * `let x = …;` that shadows an immutable `let x` (not before a loop); `#[cfg(unix)]` on a `let`
//!   * an `async fn` only when the spec's signature starts with `async ` (every `.await` through the name map)
//!   * `let x = e?;` and `e?;` at function level (`match e with | .error err => .error err | .ok x => …`),
//!     `opt.ok_or(err)`
//!   * `match` at function level followed by further statements (they follow every arm that does not return); match
//!     guards (`p if g => b` ↦ `| p => if g then b else match … <later arms>`); variants of an enum generated with
//!     payload inside `Some(…)`/`Ok(…)` patterns; `let (a, b) = e;` as an opaque let; an opaque, verbatim-compared tail
//!   * logging macros `debug! trace! info! warn! error!` are skipped
//!   * method calls / field accesses / casts only through the per-function NAME MAP below
//!     (whole expression, compared after removing white space) or METHOD MAP
//!     (receiver, method ↦ Lean function applied to the translated arguments).
//!
//! Integers: `usize`/`u32`/`u64` ↦ `Nat`, `i64` ↦ `Int` (one numeric type per function, given in
//! the spec).  Overflow / wrap-around is outside the translation; unsigned `-` is *rejected*
//! (it may underflow), `saturating_sub` is `Nat` subtraction.
//!
//! Trusted: this translator, and per function the name map / method map / signature in `SPECS`
//! (they are printed into the header comment of the generated file).

use std::path::Path;
use std::sync::atomic::{AtomicBool, Ordering};
use crate::util::*;

pub static FAILED: AtomicBool = AtomicBool::new(false);

#[derive(Clone, Copy, PartialEq)]
enum Num {
    Nat,
    Int,
}

struct Spec {
    /// property the function belongs to
    id: &'static str,
    file: &'static str,
    ty: &'static str,
    method: &'static str,
    /// Lean name of the generated definition (in `KM.Gen`)
    lean: &'static str,
    /// expected Rust signature: compact inputs, `->`, compact output (checked verbatim)
    sig: &'static str,
    /// Lean binders of the generated definition, and the same as explicit arguments
    binders: &'static str,
    args: &'static str,
    ret: &'static str,
    num: Num,
    /// whole Rust expression (compact) ↦ Lean term
    names: &'static [(&'static str, &'static str)],
    /// (receiver (compact), method) ↦ Lean function; arguments are translated and appended
    methods: &'static [((&'static str, &'static str), &'static str)],
    /// Lean types of the `let mut` variables carried through a loop, and of the loop element
    state_ty: &'static [(&'static str, &'static str)],
    elem_ty: &'static str,
    /// Rust enums whose variants occur, regenerated from the given file: (name, file, Lean type
    /// parameters).  Without parameters the payloads are dropped; with parameters the payload types
    /// are kept and mapped through `types`.
    enums: &'static [(&'static str, &'static str, &'static str)],
    /// Rust structs built by the function (`Self { … }`), regenerated from the given file:
    /// (name, file, Lean type parameters, the Lean type of a value); field types through `types`.
    structs: &'static [(&'static str, &'static str, &'static str, &'static str)],
    /// Rust type (compact) ↦ Lean type, for enum payloads and struct fields
    types: &'static [(&'static str, &'static str)],
    /// `let name = init;` statements (checked verbatim, compact) that are not translated: the
    /// variable is opaque, i.e. only usable through the name map
    opaque_lets: &'static [(&'static str, &'static str)],
    /// effect statements: Rust expression statement (compact, without `;`) ↦ (mutable local that
    /// is updated, Lean term of its new value)
    effects: &'static [(&'static str, &'static str, &'static str)],
    /// the decision lives in a closure: the function body must be exactly
    /// `<prefix>|<param>|{ BODY }<suffix>` (compact); BODY is translated, `<param>` is a mutable local
    /// bound by the Lean binder of the same name
    wrapper: Option<(&'static str, &'static str, &'static str)>,
    /// conditions with an effect: `if <cond> { A } else { B }` where evaluating `<cond>` (compact) also updates a
    /// mutable local: (cond, Lean Bool term of its value, the local, Lean term of the local's new value WHEN THE
    /// CONDITION IS TRUE; when it is false the local is unchanged)
    cond_effects: &'static [(&'static str, &'static str, &'static str, &'static str)],
    /// fields of `self` that a `&mut self` function assigns: each is a mutable local `self_<field>` that starts as the
    /// binder of that name; a function that returns `()` returns the tuple of these fields (in this order)
    self_fields: &'static [&'static str],
    /// `&mut` parameters the function appends to (`events: &mut Vec<…>`): mutable locals of that name that start as
    /// the binder of the same name
    mut_params: &'static [&'static str],
    /// enums of a dependency (rpki-rs): (name, variants) - generated WITHOUT payload from this list (trusted, printed
    /// into the header); the variants of a third-party enum cannot be re-read from /repo
    extern_enums: &'static [(&'static str, &'static [&'static str])],
    /// opaque tail: when the REMAINING statements of the function body (at function level, compact, joined)
    /// are exactly this text, they are not translated but stand for the given Lean term
    tail: Option<(&'static str, &'static str)>,
    /// what the abstraction hides (printed into the header)
    note: &'static str,
}

const SPECS: &[Spec] = &[
    Spec {
        id: "C01",
        file: "src/server/ca/roa.rs",
        ty: "Roas",
        method: "mode",
        lean: "Roas.mode",
        sig: "&self,total:usize,de_aggregation_threshold:usize,aggregation_threshold:usize->RoaMode",
        binders: "(aggregating : Bool) (total de_aggregation_threshold aggregation_threshold : Nat)",
        args: "aggregating total de_aggregation_threshold aggregation_threshold",
        ret: "RoaMode",
        num: Num::Nat,
        names: &[
            ("self.is_currently_aggregating()", "aggregating"),
            ("total", "total"),
            ("de_aggregation_threshold", "de_aggregation_threshold"),
            ("aggregation_threshold", "aggregation_threshold"),
        ],
        methods: &[],
        state_ty: &[],
        elem_ty: "",
        enums: &[("RoaMode", "src/server/ca/roa.rs", "")],
        structs: &[],
        types: &[],
        opaque_lets: &[],
        effects: &[],
        wrapper: None,
        cond_effects: &[],
        self_fields: &[],
        mut_params: &[],
        extern_enums: &[],
        tail: None,
        note: "`self` is only consulted through `is_currently_aggregating()` (a Bool parameter).",
    },
    Spec {
        id: "C11",
        file: "src/server/pubd/rrdp.rs",
        ty: "RrdpServer",
        method: "find_deltas_truncate_age",
        lean: "RrdpServer.find_deltas_truncate_age",
        sig: "&self,rrdp_updates_config:RrdpUpdatesConfig->usize",
        binders: "{Δ : Type} (younger older : Δ → Nat → Bool) (deltas : List Δ) (min_nr_cfg min_secs_cfg max_nr_cfg max_secs_cfg : Nat)",
        args: "younger older deltas min_nr_cfg min_secs_cfg max_nr_cfg max_secs_cfg",
        ret: "Nat",
        num: Num::Nat,
        names: &[
            ("&self.deltas", "deltas"),
            ("rrdp_updates_config.rrdp_delta_files_min_nr", "min_nr_cfg"),
            ("rrdp_updates_config.rrdp_delta_files_min_seconds", "min_secs_cfg"),
            ("rrdp_updates_config.rrdp_delta_files_max_nr", "max_nr_cfg"),
            ("rrdp_updates_config.rrdp_delta_files_max_seconds", "max_secs_cfg"),
        ],
        methods: &[
            (("delta", "younger_than_seconds"), "younger delta"),
            (("delta", "older_than_seconds"), "older delta"),
        ],
        state_ty: &[("keep", "Nat")],
        elem_ty: "Δ",
        enums: &[],
        structs: &[],
        types: &[],
        opaque_lets: &[],
        effects: &[],
        wrapper: None,
        cond_effects: &[],
        self_fields: &[],
        mut_params: &[],
        extern_enums: &[],
        tail: None,
        note: "deltas are abstract (`Δ`); the two wall-clock tests of a delta are parameter functions \
               `younger`/`older : Δ → seconds → Bool`; the four fields of `RrdpUpdatesConfig` are parameters.",
    },
    Spec {
        id: "C14",
        file: "src/server/ca/publishing.rs",
        ty: "KeyObjectSet",
        method: "requires_reissuance",
        lean: "KeyObjectSet.requires_reissuance",
        sig: "&self,hours:i64->bool",
        binders: "(now next_update hours : Int)",
        args: "now next_update hours",
        ret: "Bool",
        num: Num::Int,
        names: &[
            ("hours", "hours"),
            ("Time::now()", "now"),
            ("self.next_update()", "next_update"),
            ("Duration::hours(hours)", "(hours * 3600)"),
        ],
        methods: &[],
        state_ty: &[],
        elem_ty: "",
        enums: &[],
        structs: &[],
        types: &[],
        opaque_lets: &[],
        effects: &[],
        wrapper: None,
        cond_effects: &[],
        self_fields: &[],
        mut_params: &[],
        extern_enums: &[],
        tail: None,
        note: "`Time` and `Duration` are whole seconds (`Int`); `Time - Duration` and `Time > Time` are the integer operations; \
               the wall clock `Time::now()` is a parameter; `self.next_update()` is the getter of `self.revision.next_update`.",
    },
    Spec {
        id: "C14",
        file: "src/server/ca/publishing.rs",
        ty: "ResourceClassObjects",
        method: "requires_re_issuance",
        lean: "ResourceClassObjects.requires_re_issuance",
        sig: "&self,hours:i64->bool",
        binders: "{S : Type} (due : S → Int → Bool) (keys : ResourceClassKeyState) (current_set old_set staging_set : S) (hours : Int)",
        args: "due keys current_set old_set staging_set hours",
        ret: "Bool",
        num: Num::Int,
        names: &[
            ("hours", "hours"),
            ("&self.keys", "keys"),
            ("state.current_set.requires_reissuance(hours)", "due current_set hours"),
            ("state.old_set.requires_reissuance(hours)", "due old_set hours"),
            ("state.staging_set.requires_reissuance(hours)", "due staging_set hours"),
        ],
        methods: &[],
        state_ty: &[],
        elem_ty: "",
        enums: &[("ResourceClassKeyState", "src/server/ca/publishing.rs", "")],
        structs: &[],
        types: &[],
        opaque_lets: &[],
        effects: &[],
        wrapper: None,
        cond_effects: &[],
        self_fields: &[],
        mut_params: &[],
        extern_enums: &[],
        tail: None,
        note: "key object sets are abstract (`S`), `KeyObjectSet::requires_reissuance` is the parameter `due`; the payload of \
               `ResourceClassKeyState` is flattened into the three set parameters (each arm only reads the sets its variant has).",
    },
    Spec {
        id: "C17",
        file: "src/server/bgp/analyser.rs",
        ty: "ValidatedRouteOrigin<P>",
        method: "validate",
        lean: "ValidatedRouteOrigin.validate",
        sig: "origin:RouteOrigin<P>,covering:&[Roa<P>]->Self",
        binders: "{ρ ω π : Type} (roa_origin : ρ → Nat) (roa_covers : ρ → Bool) (roa_effective_max_len : ρ → Nat) \
                  (roa_payload : ρ → π) (origin : ω) (origin_asn origin_addr_len : Nat) (covering : List ρ)",
        args: "roa_origin roa_covers roa_effective_max_len roa_payload origin origin_asn origin_addr_len covering",
        ret: "ValidatedRouteOrigin ω π",
        num: Num::Nat,
        names: &[
            ("origin", "origin"),
            ("covering.iter().copied()", "covering"),
            ("origin.origin", "origin_asn"),
            ("origin.prefix.addr_len()", "origin_addr_len"),
            ("roa.prefix.covers(origin.prefix)", "roa_covers roa"),
            ("AsNumber::AS0", "0"),
            ("Vec::new()", "([] : List π)"),
        ],
        methods: &[
            (("roa", "origin"), "roa_origin roa"),
            (("roa", "effective_max_len"), "roa_effective_max_len roa"),
            (("roa", "payload"), "roa_payload roa"),
        ],
        state_ty: &[("invalidating", "List π"), ("same_asn_found", "Bool"), ("none_as0_found", "Bool")],
        elem_ty: "ρ",
        enums: &[("RouteOriginValidity", "src/server/bgp/analyser.rs", "(π : Type)")],
        structs: &[("ValidatedRouteOrigin", "src/server/bgp/analyser.rs", "(ω π : Type)", "ValidatedRouteOrigin ω π")],
        types: &[
            ("RoaPayload", "π"),
            ("RouteOrigin<P>", "ω"),
            ("RouteOriginValidity", "RouteOriginValidity π"),
            ("Vec<RoaPayload>", "List π"),
        ],
        opaque_lets: &[],
        effects: &[],
        wrapper: None,
        cond_effects: &[],
        self_fields: &[],
        mut_params: &[],
        extern_enums: &[],
        tail: None,
        note: "ROAs (`ρ`), route origins (`ω`) and payloads (`π`) are abstract; AS numbers and prefix lengths are `Nat` \
               (`AsNumber::AS0` = 0); what the loop reads of a ROA are parameter functions (`roa_covers r` = \
               `r.prefix.covers(origin.prefix)`); of the origin it reads its AS number and prefix length (parameters).",
    },
    Spec {
        id: "C02",
        file: "src/server/ca/keys.rs",
        ty: "CertifiedKey",
        method: "wants_update",
        lean: "CertifiedKey.wants_update",
        sig: "&self,handle:&CaHandle,rcn:&ResourceClassName,new_resources:&ResourceSet,new_not_after:Time->bool",
        binders: "(ca_repository_ends_with_slash resources_unchanged resources_are_all : Bool) (cert_not_after new_not_after clock : Int)",
        args: "ca_repository_ends_with_slash resources_unchanged resources_are_all cert_not_after new_not_after clock",
        ret: "Bool",
        num: Num::Int,
        names: &[
            ("self.incoming_cert.ca_repository().ends_with(\"/\")", "ca_repository_ends_with_slash"),
            ("resources_diff.is_empty()", "resources_unchanged"),
            ("self.incoming_cert().resources==ResourceSet::all()", "resources_are_all"),
            ("not_after.timestamp()", "cert_not_after"),
            ("new_not_after.timestamp()", "new_not_after"),
            ("Time::now().timestamp()", "clock"),
            (
                "(remaining_seconds_on_eligibleasf64/remaining_seconds_on_currentasf64)<0.9_f64",
                "decide (10 * remaining_seconds_on_eligible < 9 * remaining_seconds_on_current)",
            ),
            (
                "(remaining_seconds_on_eligibleasf64/remaining_seconds_on_currentasf64)>1.1_f64",
                "decide (10 * remaining_seconds_on_eligible > 11 * remaining_seconds_on_current)",
            ),
        ],
        methods: &[],
        state_ty: &[],
        elem_ty: "",
        enums: &[],
        structs: &[],
        types: &[],
        opaque_lets: &[
            ("resources_diff", "new_resources.difference(&self.incoming_cert.resources)"),
            ("not_after", "self.incoming_cert.validity.not_after()"),
        ],
        effects: &[],
        wrapper: None,
        cond_effects: &[],
        self_fields: &[],
        mut_params: &[],
        extern_enums: &[],
        tail: None,
        note: "FLOATS: the two `f64` ratio tests `e/c < 0.9`, `e/c > 1.1` are NOT translated but mapped to the integer \
               predicates `10·e < 9·c`, `10·e > 11·c` of the model (they are only evaluated for `c > 0`, where the exact \
               rational comparison is the same; the rounding of the f64 quotient is outside the translation and sampled at \
               the boundaries by the `pure` stream).  Times are unix seconds (`Int`); the certificate enters through three \
               Booleans (id-ad-caRepository ends with `/`; `new_resources.difference(cert.resources).is_empty()`; \
               `cert.resources == ResourceSet::all()`) and its not-after time.",
    },
    Spec {
        id: "C09",
        file: "src/commons/queue.rs",
        ty: "Queue",
        method: "schedule_task",
        lean: "Queue.schedule_task",
        sig: "&self,name:&Ident,value:&serde_json::Value,timestamp_millis:Option<u128>,mode:ScheduleMode->Result<(),Error>",
        binders: "{σ κ : Type} (delete_pending delete_running : σ → κ → σ) (store_pending : σ → Nat → σ) (now : Nat) \
                  (store : σ) (timestamp_millis : Option Nat) (mode : ScheduleMode) (pending_found running_found : Option (κ × Nat))",
        args: "delete_pending delete_running store_pending now store timestamp_millis mode pending_found running_found",
        ret: "σ",
        num: Num::Nat,
        names: &[
            ("mode", "mode"),
            ("timestamp_millis.unwrap_or_else(||{Self::now()})", "(timestamp_millis.getD now)"),
            ("self.get_storage_key_and_time(name,store,Self::pending_scope())", "pending_found"),
            ("self.get_storage_key_and_time(name,store,Self::running_scope())", "running_found"),
            ("Ok(())", "store"),
        ],
        methods: &[],
        state_ty: &[],
        elem_ty: "",
        enums: &[("ScheduleMode", "src/commons/queue.rs", "")],
        structs: &[],
        types: &[],
        opaque_lets: &[],
        effects: &[
            ("store.delete(Self::pending_scope(),&pending)?", "store", "delete_pending store pending"),
            ("store.delete(Self::running_scope(),&running)?", "store", "delete_running store running"),
            (
                "store.store(Self::pending_scope(),&Self::task_storage_key(name,Some(timestamp)),value)?",
                "store",
                "store_pending store timestamp",
            ),
        ],
        wrapper: Some(("self.store.execute(Self::lock_scope(),", "store", ")?;Ok(())")),
        cond_effects: &[],
        self_fields: &[],
        mut_params: &[],
        extern_enums: &[],
        tail: None,
        note: "the key-value transaction is abstract (`σ`, keys `κ`): the three store calls are parameter functions on it \
               and the function returns the final store (the closure's `Ok(())`); errors of the store (`?`) are outside the \
               translation; the two look-ups `get_storage_key_and_time` (first key with that name in `list_keys` order, with \
               its time stamp) are parameters, both made before any change; `Self::now()` is the parameter `now`; the stored \
               entry is (name, value) under `timestamp` – name and value are fixed inside `store_pending`.",
    },
    Spec {
        id: "C13",
        file: "src/daemon/http/auth/roles.rs",
        ty: "Role",
        method: "is_allowed",
        lean: "Role.is_allowed",
        sig: "&self,permission:Permission,resource:Option<&MyHandle>->bool",
        binders: "{H P S : Type} (has : S → P → Bool) (entry : H → Option S) (self_any self_none : S) (permission : P) (resource : Option H)",
        args: "has entry self_any self_none permission resource",
        ret: "Bool",
        num: Num::Nat,
        names: &[
            ("resource", "resource"),
            ("permission", "permission"),
            ("self.resources.get(resource)", "(entry resource)"),
            ("permissions", "permissions"),
        ],
        methods: &[
            (("permissions", "has"), "has permissions"),
            (("self.any", "has"), "has self_any"),
            (("self.none", "has"), "has self_none"),
        ],
        state_ty: &[],
        elem_ty: "",
        enums: &[],
        structs: &[],
        types: &[],
        opaque_lets: &[],
        effects: &[],
        wrapper: None,
        cond_effects: &[],
        self_fields: &[],
        mut_params: &[],
        extern_enums: &[],
        tail: None,
        note: "permission sets `S`, permissions `P` and handles `H` are abstract; `PermissionSet::has` is the parameter \
               `has`; the hash map `self.resources` enters through its look-up function `entry` (`HashMap::get`); the \
               fields `self.any` / `self.none` are the parameters `self_any` / `self_none`.  The binder `resource` of \
               `Some(resource)` shadows the parameter of the same name in Rust and in Lean alike.",
    },
    Spec {
        id: "C20",
        file: "src/daemon/http/auth/authorizer.rs",
        ty: "Authorizer",
        method: "authenticate_request",
        lean: "Authorizer.authenticate_request",
        sig: "async &self,request:&HyperRequest->(AuthInfo,Option<Token>)",
        binders: "{ρ ε π : Type} (legacy_provider : Option π) (legacy_authenticate : π → Except ε (Option ρ)) \
                  (primary unix_socket : Except ε (Option ρ)) (anonymous : ρ) (error : ε → ρ)",
        args: "legacy_provider legacy_authenticate primary unix_socket anonymous error",
        ret: "ρ",
        num: Num::Nat,
        names: &[
            ("&self.legacy_provider", "legacy_provider"),
            ("provider.authenticate(request)", "(legacy_authenticate provider)"),
            ("self.primary_provider.authenticate(request).await", "primary"),
            ("self.unix_socket_provider.authenticate(request)", "unix_socket"),
            ("(AuthInfo::anonymous(),None)", "anonymous"),
            ("(AuthInfo::error(err),None)", "(error err)"),
        ],
        methods: &[],
        state_ty: &[],
        elem_ty: "",
        enums: &[],
        structs: &[],
        types: &[],
        opaque_lets: &[],
        effects: &[],
        wrapper: None,
        cond_effects: &[],
        self_fields: &[],
        mut_params: &[],
        extern_enums: &[],
        tail: None,
        note: "the three providers are abstract: `legacy_provider` is the optional legacy (admin token) provider and \
               `legacy_authenticate` its `authenticate`; `primary` / `unix_socket` are the RESULTS of the primary \
               provider's and the Unix-socket provider's `authenticate(request)` (each consulted at most once, and only \
               on the path on which the value is used; the session cache effect of the primary provider is outside \
               the translation and compared by the http stream); `ρ` is the returned pair `(AuthInfo, Option<Token>)`, \
               `ε` the provider error; `Result<T, E>` ↦ `Except E T`.  The `#[cfg(unix)]` statement is part of the \
               translated build.",
    },
    Spec {
        id: "C16",
        file: "src/api/roa.rs",
        ty: "RoaPayload",
        method: "effective_max_length",
        lean: "RoaPayload.effective_max_length",
        sig: "&self->u8",
        binders: "(max_length : Option Nat) (addr_len : Nat)",
        args: "max_length addr_len",
        ret: "Nat",
        num: Num::Nat,
        names: &[("self.max_length", "max_length"), ("self.prefix.addr_len()", "addr_len")],
        methods: &[],
        state_ty: &[],
        elem_ty: "",
        enums: &[],
        structs: &[],
        types: &[],
        opaque_lets: &[],
        effects: &[],
        wrapper: None,
        cond_effects: &[],
        self_fields: &[],
        mut_params: &[],
        extern_enums: &[],
        tail: None,
        note: "`u8` ↦ `Nat`; `self.max_length` and the prefix length `self.prefix.addr_len()` are parameters.",
    },
    Spec {
        id: "C16",
        file: "src/api/roa.rs",
        ty: "RoaPayload",
        method: "max_length_valid",
        lean: "RoaPayload.max_length_valid",
        sig: "&self->bool",
        binders: "(self_max_length : Option Nat) (prefix_kind : TypedPrefix) (addr_len : Nat)",
        args: "self_max_length prefix_kind addr_len",
        ret: "Bool",
        num: Num::Nat,
        names: &[("self.max_length", "self_max_length"), ("self.prefix", "prefix_kind"), ("self.prefix.addr_len()", "addr_len")],
        methods: &[],
        state_ty: &[],
        elem_ty: "",
        enums: &[("TypedPrefix", "src/api/roa.rs", "")],
        structs: &[],
        types: &[],
        opaque_lets: &[],
        effects: &[],
        wrapper: None,
        cond_effects: &[],
        self_fields: &[],
        mut_params: &[],
        extern_enums: &[],
        tail: None,
        note: "`u8` ↦ `Nat`; of `self.prefix` only the address family (the variant of `TypedPrefix`) and the length \
               `addr_len()` are consulted.",
    },
    Spec {
        id: "C16",
        file: "src/api/roa.rs",
        ty: "RoaPayload",
        method: "nr_of_specific_prefixes",
        lean: "RoaPayload.nr_of_specific_prefixes",
        sig: "&self->u128",
        binders: "(shl_sat : Nat → Nat) (addr_len effective_max_length : Nat)",
        args: "shl_sat addr_len effective_max_length",
        ret: "Nat",
        num: Num::Nat,
        names: &[
            ("self.prefix.addr_len()", "addr_len"),
            ("self.effective_max_length()", "effective_max_length"),
            (
                "1u128.checked_shl(u32::from(max_len.saturating_sub(pfx_len))).unwrap_or(u128::MAX)",
                "(shl_sat (max_len - pfx_len))",
            ),
        ],
        methods: &[],
        state_ty: &[],
        elem_ty: "",
        enums: &[],
        structs: &[],
        types: &[],
        opaque_lets: &[],
        effects: &[],
        wrapper: None,
        cond_effects: &[],
        self_fields: &[],
        mut_params: &[],
        extern_enums: &[],
        tail: None,
        note: "`1u128.checked_shl(n).unwrap_or(u128::MAX)` is the parameter `shl_sat n` (the theorem instantiates it with \
               the checked shift of `Input/Checked.lean`: `2^n` for `n < 128`, else `2^128 - 1`); `saturating_sub` on `u8` \
               is `Nat` subtraction; the whole shift expression is compared verbatim.",
    },
    Spec {
        id: "C15",
        file: "src/server/taproxy.rs",
        ty: "TrustAnchorProxy",
        method: "process_signer_response",
        lean: "TrustAnchorProxy.process_signer_response",
        sig: "&self,response:TrustAnchorSignedResponse->KrillResult<Vec<TrustAnchorProxyEvent>>",
        binders: "{ν σ ε α : Type} [DecidableEq ν] (open_signer_request : Option ν) (self_signer : Option σ) (response_nonce : ν) \
                  (validate : σ → Except ε Unit) (err_no_request err_nonce_mismatch err_no_signer : ε) (accepted : α)",
        args: "open_signer_request self_signer response_nonce validate err_no_request err_nonce_mismatch err_no_signer accepted",
        ret: "Except ε α",
        num: Num::Nat,
        names: &[
            ("self.open_signer_request.as_ref()", "open_signer_request"),
            ("Error::TaProxyHasNoRequest", "err_no_request"),
            ("response.content().nonce", "response_nonce"),
            (
                "Error::TaProxyRequestNonceMismatch(response.into_content().nonce,open_request_nonce.clone(),)",
                "err_nonce_mismatch",
            ),
            ("&self.signer", "self_signer"),
            ("response.validate(&signer.id)", "(validate signer)"),
            ("vec![TrustAnchorProxyEvent::SignerResponseReceived(response,)]", "accepted"),
            ("Error::TaProxyHasNoSigner", "err_no_signer"),
        ],
        methods: &[],
        state_ty: &[],
        elem_ty: "",
        enums: &[],
        structs: &[],
        types: &[],
        opaque_lets: &[],
        effects: &[],
        wrapper: None,
        cond_effects: &[],
        self_fields: &[],
        mut_params: &[],
        extern_enums: &[],
        tail: None,
        note: "nonces `ν`, the associated signer `σ`, errors `ε` and the accepted event list `α` are abstract; \
               `response.validate(&signer.id)` (CMS signature check against the associated signer's identity key) is the \
               parameter `validate`; the three errors and the single accepted event \
               `SignerResponseReceived(response)` are parameters; `Result<T, E>` ↦ `Except E T`.",
    },
    Spec {
        id: "C15",
        file: "src/server/taproxy.rs",
        ty: "TrustAnchorProxy",
        method: "process_make_signer_request",
        lean: "TrustAnchorProxy.process_make_signer_request",
        sig: "&self->KrillResult<Vec<TrustAnchorProxyEvent>>",
        binders: "{ν ε α : Type} (open_signer_request : Option ν) (err_has_request : ε) (made : α)",
        args: "open_signer_request err_has_request made",
        ret: "Except ε α",
        num: Num::Nat,
        names: &[
            ("self.open_signer_request", "open_signer_request"),
            ("Error::TaProxyHasRequest", "err_has_request"),
            ("vec![TrustAnchorProxyEvent::SignerRequestMade(Nonce::new())]", "made"),
        ],
        methods: &[],
        state_ty: &[],
        elem_ty: "",
        enums: &[],
        structs: &[],
        types: &[],
        opaque_lets: &[],
        effects: &[],
        wrapper: None,
        cond_effects: &[],
        self_fields: &[],
        mut_params: &[],
        extern_enums: &[],
        tail: None,
        note: "the event `SignerRequestMade(Nonce::new())` (fresh random nonce) is the parameter `made`.",
    },
    Spec {
        id: "C10",
        file: "src/server/pubd/rrdp.rs",
        ty: "CurrentObjects",
        method: "verify_delta_applies",
        lean: "CurrentObjects.verify_delta_applies",
        sig: "&self,delta:&DeltaElements,jail:&uri::Rsync->Result<(),PublicationDeltaError>",
        binders: "{E ε : Type} (in_jail present matches_hash : E → Bool) (err_outside err_present err_no_match : E → ε) \
                  (publishes updates withdraws : List E)",
        args: "in_jail present matches_hash err_outside err_present err_no_match publishes updates withdraws",
        ret: "Except ε Unit",
        num: Num::Nat,
        names: &[
            ("delta.publishes()", "publishes"),
            ("delta.updates()", "updates"),
            ("delta.withdraws()", "withdraws"),
            ("jail.is_parent_of(&p.uri)", "(in_jail p)"),
            ("jail.is_parent_of(&u.uri)", "(in_jail u)"),
            ("jail.is_parent_of(&w.uri)", "(in_jail w)"),
            ("self.0.contains_key(&CurrentObjectUri::from(&p.uri))", "(present p)"),
            ("self.contains(u.hash,&u.uri)", "(matches_hash u)"),
            ("self.contains(w.hash,&w.uri)", "(matches_hash w)"),
            ("PublicationDeltaError::outside(jail,&p.uri)", "(err_outside p)"),
            ("PublicationDeltaError::outside(jail,&u.uri)", "(err_outside u)"),
            ("PublicationDeltaError::outside(jail,&w.uri)", "(err_outside w)"),
            ("PublicationDeltaError::present(&p.uri)", "(err_present p)"),
            ("PublicationDeltaError::no_match(&u.uri)", "(err_no_match u)"),
            ("PublicationDeltaError::no_match(&w.uri)", "(err_no_match w)"),
            ("Ok(())", "(Except.ok ())"),
        ],
        methods: &[],
        state_ty: &[],
        elem_ty: "E",
        enums: &[],
        structs: &[],
        types: &[],
        opaque_lets: &[],
        effects: &[],
        wrapper: None,
        cond_effects: &[],
        self_fields: &[],
        mut_params: &[],
        extern_enums: &[],
        tail: None,
        note: "delta elements `E` are abstract (one type for the three lists; the theorem instantiates it with the model's \
               `Elem`): `jail.is_parent_of(&x.uri)` is `in_jail x`, `self.0.contains_key(&CurrentObjectUri::from(&x.uri))` \
               is `present x`, `self.contains(x.hash, &x.uri)` (`CurrentObjects::contains`: the object under the canonical \
               key of the URI has that hash) is `matches_hash x`; the three error constructors are parameters; the \
               three lists are `DeltaElements::publishes/updates/withdraws` in protocol order.",
    },
    Spec {
        id: "C03",
        file: "src/server/ca/certauth.rs",
        ty: "CertAuth",
        method: "process_child_revoke_key",
        lean: "CertAuth.process_child_revoke_key",
        sig: "&self,child_handle:ChildHandle,request:RevocationRequest->KrillResult<Vec<CertAuthEvent>>",
        binders: "{C R ε α : Type} [DecidableEq R] (get_child : Except ε C) (parent_name_for_rcn : C → R) (has_class : R → Bool) \
                  (used_key : C → Option (UsedKeyState R)) (nothing : α) (err_no_issued_cert : ε) (revoke_events : R → α)",
        args: "get_child parent_name_for_rcn has_class used_key nothing err_no_issued_cert revoke_events",
        ret: "Except ε α",
        num: Num::Nat,
        names: &[
            ("self.get_child(&child_handle)", "get_child"),
            ("child.parent_name_for_rcn(&child_rcn)", "(parent_name_for_rcn child)"),
            ("self.resources.contains_key(&my_rcn)", "(has_class my_rcn)"),
            ("child.used_keys.get(&key)", "(used_key child)"),
            ("vec![]", "nothing"),
            ("Error::KeyUseNoIssuedCert", "err_no_issued_cert"),
        ],
        methods: &[],
        state_ty: &[],
        elem_ty: "",
        enums: &[("UsedKeyState", "src/server/ca/child.rs", "(R : Type)")],
        structs: &[],
        types: &[("ResourceClassName", "R")],
        opaque_lets: &[("(child_rcn,key)", "request.unpack()")],
        effects: &[],
        wrapper: None,
        cond_effects: &[],
        self_fields: &[],
        mut_params: &[],
        extern_enums: &[],
        tail: Some((
            "letmutchild_certificate_updates=ChildCertificateUpdates::default();child_certificate_updates.removed.push(key);\
             letcert_name=ObjectName::from_key(&key,\"cer\");info!(\"CA'{}'revokedcertificate'{}'forchild'{}'\",self.handle,cert_name,child_handle);\
             letrev=CertAuthEvent::ChildKeyRevoked{child:child_handle,resource_class_name:my_rcn.clone(),ki:key,};\
             letupd=CertAuthEvent::ChildCertificatesUpdated{resource_class_name:my_rcn,updates:child_certificate_updates,};\
             Ok(vec![rev,upd])",
            "(Except.ok (revoke_events my_rcn))",
        )),
        note: "children `C`, resource class names `R`, errors `ε` and event lists `α` are abstract; `(child_rcn, key)` are the \
               two fields of the request (opaque: `child_rcn` only enters through `child.parent_name_for_rcn(&child_rcn)`, \
               `key` through `child.used_keys.get(&key)`); `self.get_child` is a `Result` parameter; the closing statements \
               that build `ChildKeyRevoked` + `ChildCertificatesUpdated { removed: [key] }` for `my_rcn` are compared \
               verbatim and stand for `revoke_events my_rcn`.",
    },
    Spec {
        id: "C05",
        file: "src/server/ca/roa.rs",
        ty: "Routes",
        method: "process_updates",
        lean: "Routes.process_updates",
        sig: "&self,handle:&CaHandle,all_resources:&ResourceSet,updates:&RoaConfigurationUpdates->KrillResult<(Self,Vec<CertAuthEvent>)>",
        binders: "{Rt Ev Δ π κ χ ε : Type} [DecidableEq χ] (self_routes : Rt) (errs0 : Δ) (removed : List π) (added : List κ) \
                  (has : Rt → π → Bool) (remove : Rt → π → Rt) (add : Rt → π → Rt) (update_comment : Rt → π → Option χ → Rt) \
                  (get : Rt → π → Option (Option χ)) (payload_of : κ → π) (comment_of : κ → Option χ) \
                  (max_length_valid is_held : π → Bool) \
                  (add_unknown : Δ → π → Δ) (add_invalid_length add_notheld add_duplicate : Δ → κ → Δ) (errs_empty : Δ → Bool) \
                  (ev_removed ev_added : π → Ev) (ev_comment : π → Option χ → Ev) (mk_err : Δ → ε)",
        args: "self_routes errs0 removed added has remove add update_comment get payload_of comment_of max_length_valid is_held \
               add_unknown add_invalid_length add_notheld add_duplicate errs_empty ev_removed ev_added ev_comment mk_err",
        ret: "Except ε (Rt × List Ev)",
        num: Num::Nat,
        names: &[
            ("RoaDeltaError::default()", "errs0"),
            ("vec![]", "([] : List Ev)"),
            ("self.clone()", "self_routes"),
            ("&updates.removed", "removed"),
            ("&updates.added", "added"),
            ("RoaPayloadJsonMapKey::from(*roa_payload)", "roa_payload"),
            ("RoaPayloadJsonMapKey::from(roa_payload)", "roa_payload"),
            ("CertAuthEvent::RouteAuthorizationRemoved{auth}", "(ev_removed auth)"),
            ("roa_configuration.payload", "(payload_of roa_configuration)"),
            ("roa_configuration.comment.as_ref()", "(comment_of roa_configuration)"),
            ("roa_payload.max_length_valid()", "(max_length_valid roa_payload)"),
            ("roa_payload.is_held_by(all_resources)", "(is_held roa_payload)"),
            ("desired_routes.get(&auth)", "(get desired_routes auth)"),
            ("info.comment.as_ref()", "info"),
            ("CertAuthEvent::RouteAuthorizationComment{auth,comment:comment.cloned(),}", "(ev_comment auth comment)"),
            ("CertAuthEvent::RouteAuthorizationAdded{auth}", "(ev_added auth)"),
            ("delta_errors.is_empty()", "(errs_empty delta_errors)"),
            ("Error::RoaDeltaError(handle.clone(),delta_errors)", "(mk_err delta_errors)"),
            ("(desired_routes,res)", "(desired_routes, res)"),
        ],
        methods: &[],
        state_ty: &[("delta_errors", "Δ"), ("res", "List Ev"), ("desired_routes", "Rt")],
        elem_ty: "π;κ",
        enums: &[],
        structs: &[],
        types: &[],
        opaque_lets: &[],
        effects: &[
            ("delta_errors.add_unknown(*roa_payload)", "delta_errors", "add_unknown delta_errors roa_payload"),
            ("delta_errors.add_invalid_length(roa_configuration.clone())", "delta_errors", "add_invalid_length delta_errors roa_configuration"),
            ("delta_errors.add_notheld(roa_configuration.clone())", "delta_errors", "add_notheld delta_errors roa_configuration"),
            ("delta_errors.add_duplicate(roa_configuration.clone())", "delta_errors", "add_duplicate delta_errors roa_configuration"),
            ("desired_routes.add(auth)", "desired_routes", "add desired_routes auth"),
            ("desired_routes.update_comment(&auth,comment.cloned())", "desired_routes", "update_comment desired_routes auth comment"),
        ],
        wrapper: None,
        cond_effects: &[("desired_routes.remove(&auth)", "(has desired_routes auth)", "desired_routes", "remove desired_routes auth")],
        self_fields: &[],
        mut_params: &[],
        extern_enums: &[],
        tail: None,
        note: "the route map `Rt`, events `Ev`, the error collection `Δ`, payloads `π`, configurations `κ` (payload + comment \
               `Option χ`) and the error `ε` are abstract; the map key `RoaPayloadJsonMapKey::from(payload)` is the payload \
               itself; `Routes::remove` returns whether the key was present (`has`) and removes it (`remove`); \
               `Routes::get(..)` enters as the stored comment (`get : … → Option (Option χ)`, `info.comment.as_ref()` is \
               that comment); the four `RoaDeltaError::add_*` calls, `Routes::add` / `update_comment`, `max_length_valid`, \
               `is_held_by(all_resources)` and the three event constructors are parameter functions.",
    },
    Spec {
        id: "C12",
        file: "src/server/ca/certauth.rs",
        ty: "CertAuth",
        method: "verify_rfc6492",
        lean: "CertAuth.verify_rfc6492",
        sig: "&self,cms:ProvisioningCms->KrillResult<provisioning::Message>",
        binders: "{H C M ε : Type} (sender : H) (get_child : H → Except ε C) (validate : C → Except ε Unit) (message : M) (wrap_err : ε → ε)",
        args: "sender get_child validate message wrap_err",
        ret: "Except ε M",
        num: Num::Nat,
        names: &[
            ("cms.message().sender().convert()", "sender"),
            ("self.get_child(&child_handle)", "(get_child child_handle)"),
            ("cms.validate(&child.id_cert.public_key)", "(validate child)"),
            ("cms.into_message()", "message"),
        ],
        methods: &[],
        state_ty: &[],
        elem_ty: "",
        enums: &[],
        structs: &[],
        types: &[],
        opaque_lets: &[],
        effects: &[],
        wrapper: None,
        cond_effects: &[],
        self_fields: &[],
        mut_params: &[],
        extern_enums: &[],
        tail: None,
        note: "handles `H`, child records `C`, messages `M`, errors `ε` are abstract: `sender` is the sender handle INSIDE the \
               CMS message, `get_child` the look-up in THIS CA's child table, `validate child` the signature check of the CMS \
               object against `child.id_cert.public_key`, `message` the content of the CMS object; the two `map_err` closures \
               (error texts) are `wrap_err`.",
    },
    Spec {
        id: "C12",
        file: "src/server/ca/manager.rs",
        ty: "CaManager",
        method: "rfc6492",
        lean: "CaManager.rfc6492",
        sig: "&self,ca_handle:&CaHandle,msg_bytes:Bytes,user_agent:Option<String>,actor:&Actor,krill:&KrillRuntime->KrillResult<Bytes>",
        binders: "{H CA Q M B ε : Type} [DecidableEq H] (ca_handle ta_name : H) (err_ta_remote : ε) (get_ca : H → Except ε CA) \
                  (validate : CA → Except ε Q) (process : H → Q → Except ε M) (is_list : M → Bool) (sign : CA → M → Except ε B) \
                  (log_received : Except ε Unit) (log_reply : B → Except ε Unit) (log_err : ε → Except ε Unit)",
        args: "ca_handle ta_name err_ta_remote get_ca validate process is_list sign log_received log_reply log_err",
        ret: "Except ε B",
        num: Num::Nat,
        names: &[
            ("ca_handle.as_str()", "ca_handle"),
            ("TA_NAME", "ta_name"),
            ("Error::custom(\"RemoteRFC6492toTAisnotsupported\",)", "err_ta_remote"),
            ("self.get_ca(ca_handle)", "(get_ca ca_handle)"),
            ("self.rfc6492_validate_request(&ca,&msg_bytes)", "(validate ca)"),
            ("self.rfc6492_process_request(ca_handle,req_msg,user_agent,actor,krill)", "(process ca_handle req_msg)"),
            ("msg.is_list_response()", "(is_list msg)"),
            ("ca.sign_rfc6492_response(msg,krill.signer())", "(sign ca msg)"),
            ("cms_logger.received(&msg_bytes)", "log_received"),
            ("cms_logger.reply(&reply_bytes)", "(log_reply reply_bytes)"),
            ("cms_logger.err(&e)", "(log_err e)"),
        ],
        methods: &[],
        state_ty: &[],
        elem_ty: "",
        enums: &[],
        structs: &[],
        types: &[],
        opaque_lets: &[(
            "cms_logger",
            "CmsLogger::for_rfc6492_rcvd(krill.config().rfc6492_log_dir.as_ref(),req_msg.recipient(),req_msg.sender(),)",
        )],
        effects: &[],
        wrapper: None,
        cond_effects: &[],
        self_fields: &[],
        mut_params: &[],
        extern_enums: &[],
        tail: None,
        note: "handles `H`, CAs `CA`, the validated request `Q`, the unsigned reply `M` (both `provisioning::Message` in Rust), reply bytes `B`, errors `ε` are abstract: `get_ca` loads the CA NAMED IN \
               THE REQUEST URI, `validate ca` is `rfc6492_validate_request` (decode + `verify_rfc6492` against that CA's child \
               table), `process h m` is `rfc6492_process_request` for CA `h` and the validated message, `sign ca m` signs the \
               reply with that CA's identity key; the CMS logger (an audit directory on disk) only appears through its three \
               fallible calls.",
    },
    Spec {
        id: "C04",
        file: "src/server/ca/keys.rs",
        ty: "KeyState",
        method: "knows_key",
        lean: "KeyState.knows_key",
        sig: "&self,key_id:KeyIdentifier->bool",
        binders: "{K : Type} [DecidableEq K] (self_state : KeyState) (pending_key current_key new_key old_key key_id : K)",
        args: "self_state pending_key current_key new_key old_key key_id",
        ret: "Bool",
        num: Num::Nat,
        names: &[
            ("self", "self_state"),
            ("key_id", "key_id"),
            ("pending.key_id", "pending_key"),
            ("current.key_id", "current_key"),
            ("new.key_id", "new_key"),
            ("old.key.key_id", "old_key"),
        ],
        methods: &[],
        state_ty: &[],
        elem_ty: "",
        enums: &[("KeyState", "src/server/ca/keys.rs", "")],
        structs: &[],
        types: &[],
        opaque_lets: &[],
        effects: &[],
        wrapper: None,
        cond_effects: &[],
        self_fields: &[],
        mut_params: &[],
        extern_enums: &[],
        tail: None,
        note: "the key state enters as its variant (payloads dropped) and the identifiers of the keys its payload holds: \
               `pending.key_id`, `current.key_id`, `new.key_id`, `old.key.key_id` are the parameters `pending_key` … \
               `old_key` (the theorem instantiates them from the model's state; a parameter of a key the variant does not \
               have is never consulted).",
    },
    Spec {
        id: "C15",
        file: "src/server/taproxy.rs",
        ty: "TrustAnchorProxy",
        method: "process_give_child_response",
        lean: "TrustAnchorProxy.process_give_child_response",
        sig: "&self,child_handle:ChildHandle,key:KeyIdentifier->KrillResult<Vec<TrustAnchorProxyEvent>>",
        binders: "{C ε α : Type} (get_child : Except ε C) (has_open_response : C → Bool) (given : α) (err_no_response : ε)",
        args: "get_child has_open_response given err_no_response",
        ret: "Except ε α",
        num: Num::Nat,
        names: &[
            ("self.get_child_details(&child_handle)", "get_child"),
            ("child.open_responses.contains_key(&key)", "(has_open_response child)"),
            ("vec![TrustAnchorProxyEvent::ChildResponseGiven(child_handle,key,)]", "given"),
            ("Error::Custom(format!(\"Noresponsefoundforchild{child_handle}andkey{key}\"))", "err_no_response"),
        ],
        methods: &[],
        state_ty: &[],
        elem_ty: "",
        enums: &[],
        structs: &[],
        types: &[],
        opaque_lets: &[],
        effects: &[],
        wrapper: None,
        cond_effects: &[],
        self_fields: &[],
        mut_params: &[],
        extern_enums: &[],
        tail: None,
        note: "`get_child` is the look-up of the child (an unknown child is an error), `has_open_response child` whether the \
               proxy holds a response for (child, key); the one event `ChildResponseGiven(child, key)` and the refusal are \
               parameters.  The refusal is what keeps a second, overlapping delivery of the same response from succeeding \
               (`ta_slow_rfc6492_request` reads the response, sends this command, and hands the response to the child only \
               if the command succeeded).",
    },
    Spec {
        id: "C02",
        file: "src/server/ca/keys.rs",
        ty: "KeyState",
        method: "append_entitlement_events",
        lean: "KeyState.keys_for_requests",
        sig: "&self,handle:&CaHandle,rcn:ResourceClassName,entitlement:&ResourceClassEntitlements,base_repo:&RepoInfo,name_space:&str,signer:&KrillSigner,events:&mutVec<CertAuthEvent>->KrillResult<()>",
        binders: "{K : Type} (self_state : KeyState) (pending_key current_key new_key old_key : K) (current_wants new_wants old_wants : Bool)",
        args: "self_state pending_key current_key new_key old_key current_wants new_wants old_wants",
        ret: "List K",
        num: Num::Nat,
        names: &[
            ("self", "self_state"),
            ("vec![]", "([] : List K)"),
            ("(base_repo,pending.key_id)", "pending_key"),
            ("(current.old_repo.as_ref().unwrap_or(base_repo),current.key_id,)", "current_key"),
            ("(current.old_repo.as_ref().unwrap_or(base_repo),current.key_id)", "current_key"),
            ("(new.old_repo.as_ref().unwrap_or(base_repo),new.key_id,)", "new_key"),
            ("(old.key.old_repo.as_ref().unwrap_or(base_repo),current.key_id,)", "current_key"),
            ("current.wants_update(handle,&rcn,entitlement.resource_set(),entitlement.not_after(),)", "current_wants"),
            ("new.wants_update(handle,&rcn,entitlement.resource_set(),entitlement.not_after(),)", "new_wants"),
            ("old.key.wants_update(handle,&rcn,entitlement.resource_set(),entitlement.not_after(),)", "old_wants"),
        ],
        methods: &[],
        state_ty: &[],
        elem_ty: "",
        enums: &[("KeyState", "src/server/ca/keys.rs", "")],
        structs: &[],
        types: &[],
        opaque_lets: &[],
        effects: &[],
        wrapper: None,
        cond_effects: &[],
        self_fields: &[],
        mut_params: &[],
        extern_enums: &[],
        tail: Some((
            "for(base_repo,key_id)inkeys_for_requests.into_iter(){events.push(CertAuthEvent::CertificateRequested{resource_class_name:rcn.clone(),req:self.create_issuance_req(base_repo,name_space,entitlement.class_name().clone(),&key_id,signer,)?,ki:key_id,});}forkeyinentitlement.issued_certs().iter().map(|c|c.cert().subject_key_identifier()){if!self.knows_key(key){letrevoke_req=RevocationRequest::new(entitlement.class_name().clone(),key,);events.push(CertAuthEvent::UnexpectedKeyFound{resource_class_name:rcn.clone(),revoke_req,});}}Ok(())",
            "keys_for_requests",
        )),
        note: "only the first part of the function is translated: the `match self` that collects `keys_for_requests` (for which \
               keys a certificate is requested, in order); the generated definition returns that list.  The key state enters \
               as its variant and the identifiers of the keys in its payload (as for `knows_key`); a pushed pair `(repo, key \
               id)` is its key id; `<key>.wants_update(handle, &rcn, entitlement.resource_set(), entitlement.not_after())` \
               (itself translated: `CertifiedKey.wants_update`) is a Boolean parameter per key.  The closing statements - one \
               `CertificateRequested` per collected key, then `UnexpectedKeyFound` for every listed key `knows_key` does not \
               know - are compared verbatim.",
    },
    Spec {
        id: "C14",
        file: "src/server/ca/publishing.rs",
        ty: "ObjectSetRevision",
        method: "next",
        lean: "ObjectSetRevision.next",
        sig: "&mutself,next_update:Time,mft_number_override:Option<u64>->()",
        binders: "{T : Type} (self_number : Nat) (self_this_update self_next_update : T) (five_minutes_ago next_update : T) (mft_number_override : Option Nat)",
        args: "self_number self_this_update self_next_update five_minutes_ago next_update mft_number_override",
        ret: "Nat × T × T",
        num: Num::Nat,
        names: &[
            ("mft_number_override", "mft_number_override"),
            ("Time::five_minutes_ago()", "five_minutes_ago"),
            ("next_update", "next_update"),
        ],
        methods: &[],
        state_ty: &[],
        elem_ty: "",
        enums: &[],
        structs: &[],
        types: &[],
        opaque_lets: &[],
        effects: &[],
        wrapper: None,
        cond_effects: &[],
        self_fields: &["number", "this_update", "next_update"],
        mut_params: &[],
        extern_enums: &[],
        tail: None,
        note: "times `T` are abstract; `Time::five_minutes_ago()` is a parameter; the result is (number, this_update, \
               next_update) of the revision after the call.",
    },
    Spec {
        id: "C04",
        file: "src/server/ca/keys.rs",
        ty: "KeyState",
        method: "append_keyroll_activate",
        lean: "KeyState.append_keyroll_activate",
        sig: "&self,resource_class_name:ResourceClassName,parent_class_name:ResourceClassName,signer:&KrillSigner,events:&mutVec<CertAuthEvent>->KrillResult<()>",
        binders: "{K Q ε Ev : Type} (self_state : KeyState) (new_has_request current_has_request : Bool) (current_key : K) \
                  (revoke_key : K → Except ε Q) (activated : Q → Ev) (err_pending err_no_new_key : ε) (events : List Ev)",
        args: "self_state new_has_request current_has_request current_key revoke_key activated err_pending err_no_new_key events",
        ret: "Except ε (List Ev)",
        num: Num::Nat,
        names: &[
            ("self", "self_state"),
            ("new.request.is_some()", "new_has_request"),
            ("current.request.is_some()", "current_has_request"),
            ("Error::KeyRollActivatePendingRequests", "err_pending"),
            ("Self::revoke_key(parent_class_name,current.key_id,signer,)", "(revoke_key current_key)"),
            ("CertAuthEvent::KeyRollActivated{resource_class_name,revoke_req,}", "(activated revoke_req)"),
            ("Error::KeyUseNoNewKey", "err_no_new_key"),
            ("Ok(())", "(Except.ok events)"),
        ],
        methods: &[],
        state_ty: &[],
        elem_ty: "",
        enums: &[("KeyState", "src/server/ca/keys.rs", "")],
        structs: &[],
        types: &[],
        opaque_lets: &[],
        effects: &[],
        wrapper: None,
        cond_effects: &[],
        self_fields: &[],
        mut_params: &["events"],
        extern_enums: &[],
        tail: None,
        note: "the key state enters as its variant, whether the new and the current key have an open certificate request \
               (`request.is_some()`) and the current key's identifier; `Self::revoke_key(parent class, current key, signer)` \
               builds the revocation request for the CURRENT (soon old) key; the function returns the events it appended to \
               (`Ok(())` ↦ `Ok(events)`).",
    },
    Spec {
        id: "C19",
        file: "src/api/ca.rs",
        ty: "RepoStatus",
        method: "set_last_updated",
        lean: "RepoStatus.set_last_updated",
        sig: "&mutself,uri:ServiceUri->()",
        binders: "{T U X : Type} (exchange_success : T → U → X) (self_last_exchange : Option X) (self_last_success : Option T) (now : T) (uri : U)",
        args: "exchange_success self_last_exchange self_last_success now uri",
        ret: "Option X × Option T",
        num: Num::Nat,
        names: &[("Timestamp::now()", "now"), ("Some(ParentExchange{timestamp,uri,result:ExchangeResult::Success,})", "(some (exchange_success timestamp uri))")],
        methods: &[],
        state_ty: &[],
        elem_ty: "",
        enums: &[],
        structs: &[],
        types: &[],
        opaque_lets: &[],
        effects: &[],
        wrapper: None,
        cond_effects: &[],
        self_fields: &["last_exchange", "last_success"],
        mut_params: &[],
        extern_enums: &[],
        tail: None,
        note: "time stamps `T`, URIs `U` and exchange records `X` are abstract; `ParentExchange { timestamp, uri, result: Success }` is the parameter function `exchange_success`; the clock is the parameter `now`; the result is (last_exchange, last_success) after the call.",
    },
    Spec {
        id: "C19",
        file: "src/api/ca.rs",
        ty: "RepoStatus",
        method: "set_failure",
        lean: "RepoStatus.set_failure",
        sig: "&mutself,uri:ServiceUri,error:ErrorResponse->()",
        binders: "{T U X ε : Type} (exchange_failure : T → U → ε → X) (self_last_exchange : Option X) (now : T) (uri : U) (error : ε)",
        args: "exchange_failure self_last_exchange now uri error",
        ret: "Option X",
        num: Num::Nat,
        names: &[("Timestamp::now()", "now"), ("Some(ParentExchange{timestamp,uri,result:ExchangeResult::Failure(error),})", "(some (exchange_failure timestamp uri error))")],
        methods: &[],
        state_ty: &[],
        elem_ty: "",
        enums: &[],
        structs: &[],
        types: &[],
        opaque_lets: &[],
        effects: &[],
        wrapper: None,
        cond_effects: &[],
        self_fields: &["last_exchange"],
        mut_params: &[],
        extern_enums: &[],
        tail: None,
        note: "`ParentExchange { timestamp, uri, result: Failure(error) }` is the parameter function `exchange_failure`; the result is last_exchange after the call (last_success and the published list are not assigned).",
    },
    Spec {
        id: "C19",
        file: "src/api/ca.rs",
        ty: "RepoStatus",
        method: "update_published",
        lean: "RepoStatus.update_published",
        sig: "&mutself,uri:ServiceUri,delta:PublishDelta->()",
        binders: "{T U X E F : Type} (exchange_success : T → U → X) (kind : E → PublishDeltaElement) (file_of : E → F) (same_uri : E → F → Bool) (self_last_exchange : Option X) (self_last_success : Option T) (self_published : List F) (now : T) (uri : U) (elements : List E)",
        args: "exchange_success kind file_of same_uri self_last_exchange self_last_success self_published now uri elements",
        ret: "Option X × Option T × List F",
        num: Num::Nat,
        names: &[("Timestamp::now()", "now"), ("Some(ParentExchange{timestamp,uri,result:ExchangeResult::Success,})", "(some (exchange_success timestamp uri))"), ("delta.into_elements()", "elements"), ("match element", "kind element")],
        methods: &[],
        state_ty: &[("self_last_exchange", "Option X"), ("self_last_success", "Option T"), ("self_published", "List F")],
        elem_ty: "E",
        enums: &[],
        structs: &[],
        types: &[],
        opaque_lets: &[("(_tag,uri,base64)", "publish.unpack()"), ("(_tag,uri,base64,_hash)", "update.unpack()"), ("(_tag,uri,_hash)", "withdraw.unpack()")],
        effects: &[("self.published.retain(|el|el.uri!=uri)", "self_published", "self_published.filter (fun el => !(same_uri element el))"), ("self.published.push(PublishedFile{uri,base64})", "self_published", "self_published ++ [file_of element]")],
        wrapper: None,
        cond_effects: &[],
        self_fields: &["last_exchange", "last_success", "published"],
        mut_params: &[],
        extern_enums: &[("PublishDeltaElement", &["Publish", "Update", "Withdraw"])],
        tail: None,
        note: "delta elements `E` and published files `F` are abstract: `kind` is the variant of an element (rpki-rs `PublishDeltaElement`), inside an arm `uri` / `base64` are the unpacked fields of THAT element: `el.uri != uri` is `!(same_uri element el)`, `PublishedFile { uri, base64 }` is `file_of element`; the result is (last_exchange, last_success, published) after the call.",
    },
    Spec {
        id: "C19",
        file: "src/api/ca.rs",
        ty: "ParentStatus",
        method: "set_last_updated",
        lean: "ParentStatus.set_last_updated",
        sig: "&mutself,uri:ServiceUri->()",
        binders: "{T U X : Type} (exchange_success : T → U → X) (self_last_exchange : Option X) (self_last_success : Option T) (now : T) (uri : U)",
        args: "exchange_success self_last_exchange self_last_success now uri",
        ret: "Option X × Option T",
        num: Num::Nat,
        names: &[("Timestamp::now()", "now"), ("Some(ParentExchange{timestamp,uri,result:ExchangeResult::Success,})", "(some (exchange_success timestamp uri))")],
        methods: &[],
        state_ty: &[],
        elem_ty: "",
        enums: &[],
        structs: &[],
        types: &[],
        opaque_lets: &[],
        effects: &[],
        wrapper: None,
        cond_effects: &[],
        self_fields: &["last_exchange", "last_success"],
        mut_params: &[],
        extern_enums: &[],
        tail: None,
        note: "as `RepoStatus::set_last_updated`.",
    },
    Spec {
        id: "C19",
        file: "src/api/ca.rs",
        ty: "ParentStatus",
        method: "set_failure",
        lean: "ParentStatus.set_failure",
        sig: "&mutself,uri:ServiceUri,error:ErrorResponse->()",
        binders: "{T U X ε : Type} (exchange_failure : T → U → ε → X) (self_last_exchange : Option X) (now : T) (uri : U) (error : ε)",
        args: "exchange_failure self_last_exchange now uri error",
        ret: "Option X",
        num: Num::Nat,
        names: &[("Some(ParentExchange{timestamp:Timestamp::now(),uri,result:ExchangeResult::Failure(error),})", "(some (exchange_failure now uri error))")],
        methods: &[],
        state_ty: &[],
        elem_ty: "",
        enums: &[],
        structs: &[],
        types: &[],
        opaque_lets: &[],
        effects: &[],
        wrapper: None,
        cond_effects: &[],
        self_fields: &["last_exchange"],
        mut_params: &[],
        extern_enums: &[],
        tail: None,
        note: "as `RepoStatus::set_failure` (the clock is read inside the record).",
    },
    Spec {
        id: "C19",
        file: "src/api/ca.rs",
        ty: "ParentStatus",
        method: "set_entitlements",
        lean: "ParentStatus.set_entitlements",
        sig: "&mutself,uri:ServiceUri,entitlements:&ResourceClassListResponse->()",
        binders: "{T U X C R : Type} (exchange_success : T → U → X) (resources_of : C → R) (union : R → R → R) (empty : R) (self_last_exchange : Option X) (self_last_success : Option T) (self_all_resources : R) (self_classes : List C) (now : T) (uri : U) (entitlement_classes : List C)",
        args: "exchange_success resources_of union empty self_last_exchange self_last_success self_all_resources self_classes now uri entitlement_classes",
        ret: "Option X × Option T × R × List C",
        num: Num::Nat,
        names: &[("ResourceSet::default()", "empty"), ("&self.classes", "self_classes"), ("class.resource_set()", "(resources_of «class»)")],
        methods: &[(("all_resources", "union"), "union all_resources")],
        state_ty: &[("self_last_exchange", "Option X"), ("self_last_success", "Option T"), ("self_all_resources", "R"), ("self_classes", "List C"), ("all_resources", "R")],
        elem_ty: "C",
        enums: &[],
        structs: &[],
        types: &[],
        opaque_lets: &[],
        effects: &[("self.set_last_updated(uri)", "self_last_exchange", "(ParentStatus.set_last_updated exchange_success self_last_exchange self_last_success now uri).1"), ("self.set_last_updated(uri)", "self_last_success", "(ParentStatus.set_last_updated exchange_success self_last_exchange self_last_success now uri).2"), ("self.classes.clone_from(entitlements.classes())", "self_classes", "entitlement_classes")],
        wrapper: None,
        cond_effects: &[],
        self_fields: &["last_exchange", "last_success", "all_resources", "classes"],
        mut_params: &[],
        extern_enums: &[],
        tail: None,
        note: "entitlement classes `C` and resource sets `R` are abstract (`resources_of`, `union`, `empty` are rpki-rs operations); the call `self.set_last_updated(uri)` is the GENERATED definition of that method applied to the two fields it assigns; the result is (last_exchange, last_success, all_resources, classes) after the call.",
    },
    Spec {
        id: "C19",
        file: "src/api/ca.rs",
        ty: "ChildStatus",
        method: "set_success",
        lean: "ChildStatus.set_success",
        sig: "&mutself,user_agent:Option<String>->()",
        binders: "{T X A : Type} (child_success : T → A → X) (self_last_exchange : Option X) (self_last_success self_suspended : Option T) (now : T) (user_agent : A)",
        args: "child_success self_last_exchange self_last_success self_suspended now user_agent",
        ret: "Option X × Option T × Option T",
        num: Num::Nat,
        names: &[("Timestamp::now()", "now"), ("Some(ChildExchange{result:ExchangeResult::Success,timestamp,user_agent,})", "(some (child_success timestamp user_agent))")],
        methods: &[],
        state_ty: &[],
        elem_ty: "",
        enums: &[],
        structs: &[],
        types: &[],
        opaque_lets: &[],
        effects: &[],
        wrapper: None,
        cond_effects: &[],
        self_fields: &["last_exchange", "last_success", "suspended"],
        mut_params: &[],
        extern_enums: &[],
        tail: None,
        note: "`ChildExchange { result: Success, timestamp, user_agent }` is the parameter function `child_success`; the result is (last_exchange, last_success, suspended) after the call.",
    },
    Spec {
        id: "C19",
        file: "src/api/ca.rs",
        ty: "ChildStatus",
        method: "set_failure",
        lean: "ChildStatus.set_failure",
        sig: "&mutself,user_agent:Option<String>,error_response:ErrorResponse->()",
        binders: "{T X A ε : Type} (child_failure : T → A → ε → X) (self_last_exchange : Option X) (self_suspended : Option T) (now : T) (user_agent : A) (error_response : ε)",
        args: "child_failure self_last_exchange self_suspended now user_agent error_response",
        ret: "Option X × Option T",
        num: Num::Nat,
        names: &[("Some(ChildExchange{timestamp:Timestamp::now(),result:ExchangeResult::Failure(error_response),user_agent,})", "(some (child_failure now user_agent error_response))")],
        methods: &[],
        state_ty: &[],
        elem_ty: "",
        enums: &[],
        structs: &[],
        types: &[],
        opaque_lets: &[],
        effects: &[],
        wrapper: None,
        cond_effects: &[],
        self_fields: &["last_exchange", "suspended"],
        mut_params: &[],
        extern_enums: &[],
        tail: None,
        note: "the result is (last_exchange, suspended) after the call; last_success is not assigned.",
    },
    Spec {
        id: "C19",
        file: "src/api/ca.rs",
        ty: "ChildStatus",
        method: "set_suspended",
        lean: "ChildStatus.set_suspended",
        sig: "&mutself->()",
        binders: "{T : Type} (self_suspended : Option T) (now : T)",
        args: "self_suspended now",
        ret: "Option T",
        num: Num::Nat,
        names: &[("Timestamp::now()", "now")],
        methods: &[],
        state_ty: &[],
        elem_ty: "",
        enums: &[],
        structs: &[],
        types: &[],
        opaque_lets: &[],
        effects: &[],
        wrapper: None,
        cond_effects: &[],
        self_fields: &["suspended"],
        mut_params: &[],
        extern_enums: &[],
        tail: None,
        note: "the result is `suspended` after the call.",
    },
    Spec {
        id: "C09",
        file: "src/commons/queue.rs",
        ty: "Queue",
        method: "claim_scheduled_pending_task",
        lean: "Queue.claim_fold_step",
        sig: "&self->Result<Option<(Box<Ident>,serde_json::Value)>,Error>",
        binders: "{κ : Type} (split : κ → Option (Nat × κ)) (now : Nat) (acc : Option (Nat × κ)) (key : κ)",
        args: "split now acc key",
        ret: "Option (Nat × κ)",
        num: Num::Nat,
        names: &[("Self::split_storage_key(&key)", "split key"), ("now", "now")],
        methods: &[],
        state_ty: &[],
        elem_ty: "",
        enums: &[],
        structs: &[],
        types: &[],
        opaque_lets: &[],
        effects: &[],
        wrapper: Some((
            "self.store.execute(Self::lock_scope(),|store|{letnow=Self::now();letSome((_,key))=store.list_keys(Self::pending_scope())?.into_iter().fold(None,",
            "acc,key",
            ")else{returnOk(Ok(None))};letSome((_,name))=Self::split_storage_key(&key)else{returnOk(Err(Error::other(format!(\"Cannotloadtask:storagekey'{key}'issuddenly\\invalid.Thisisabug.\"))));};ifletSome(value)=store.get(Self::pending_scope(),&key)?{letmutnew_key=Self::task_storage_key(name,Some(now));ifstore.has(Self::running_scope(),&new_key)?{std::thread::sleep(Duration::from_millis(1));new_key=Self::task_storage_key(name,None);}store.move_value(Self::pending_scope(),&key,Self::running_scope(),&new_key)?;Ok(Ok(Some((new_key,value))))}else{Ok(Ok(None))}})?",
        )),
        cond_effects: &[],
        self_fields: &[],
        mut_params: &[],
        extern_enums: &[],
        tail: None,
        note: "only the closure handed to `fold(None, …)` over the keys of the pending scope is translated (one step of the \
               choice of the task to claim); the rest of the function - the clock reading `now`, the fold itself starting from \
               `None`, the move of the chosen entry to the running scope - is compared verbatim; `split_storage_key` is the \
               parameter `split` (time stamp and name of a storage key).",
    },
    Spec {
        id: "C09",
        file: "src/server/mq.rs",
        ty: "TaskQueue",
        method: "schedule",
        lean: "TaskQueue.schedule",
        sig: "&self,task:Task,priority:Priority->KrillResult<()>",
        binders: "{Tk P R : Type} (schedule_task : Tk → ScheduleMode → P → R) (task : Tk) (priority : P)",
        args: "schedule_task task priority",
        ret: "R",
        num: Num::Nat,
        names: &[("task", "task"), ("priority", "priority")],
        methods: &[(("self", "schedule_task"), "schedule_task")],
        state_ty: &[],
        elem_ty: "",
        enums: &[("ScheduleMode", "src/commons/queue.rs", "")],
        structs: &[],
        types: &[],
        opaque_lets: &[],
        effects: &[],
        wrapper: None,
        cond_effects: &[],
        self_fields: &[],
        mut_params: &[],
        extern_enums: &[],
        tail: None,
        note: "the private `TaskQueue::schedule_task` is the parameter of the same name (translated below); what is tied here is the `ScheduleMode` this entry point hands to it.",
    },
    Spec {
        id: "C09",
        file: "src/server/mq.rs",
        ty: "TaskQueue",
        method: "schedule_and_finish_existing",
        lean: "TaskQueue.schedule_and_finish_existing",
        sig: "&self,task:Task,priority:Priority->KrillResult<()>",
        binders: "{Tk P R : Type} (schedule_task : Tk → ScheduleMode → P → R) (task : Tk) (priority : P)",
        args: "schedule_task task priority",
        ret: "R",
        num: Num::Nat,
        names: &[("task", "task"), ("priority", "priority")],
        methods: &[(("self", "schedule_task"), "schedule_task")],
        state_ty: &[],
        elem_ty: "",
        enums: &[("ScheduleMode", "src/commons/queue.rs", "")],
        structs: &[],
        types: &[],
        opaque_lets: &[],
        effects: &[],
        wrapper: None,
        cond_effects: &[],
        self_fields: &[],
        mut_params: &[],
        extern_enums: &[],
        tail: None,
        note: "the private `TaskQueue::schedule_task` is the parameter of the same name (translated below); what is tied here is the `ScheduleMode` this entry point hands to it.",
    },
    Spec {
        id: "C09",
        file: "src/server/mq.rs",
        ty: "TaskQueue",
        method: "schedule_missing",
        lean: "TaskQueue.schedule_missing",
        sig: "&self,task:Task,priority:Priority->KrillResult<()>",
        binders: "{Tk P R : Type} (schedule_task : Tk → ScheduleMode → P → R) (task : Tk) (priority : P)",
        args: "schedule_task task priority",
        ret: "R",
        num: Num::Nat,
        names: &[("task", "task"), ("priority", "priority")],
        methods: &[(("self", "schedule_task"), "schedule_task")],
        state_ty: &[],
        elem_ty: "",
        enums: &[("ScheduleMode", "src/commons/queue.rs", "")],
        structs: &[],
        types: &[],
        opaque_lets: &[],
        effects: &[],
        wrapper: None,
        cond_effects: &[],
        self_fields: &[],
        mut_params: &[],
        extern_enums: &[],
        tail: None,
        note: "the private `TaskQueue::schedule_task` is the parameter of the same name (translated below); what is tied here is the `ScheduleMode` this entry point hands to it.",
    },
    Spec {
        id: "C09",
        file: "src/server/mq.rs",
        ty: "TaskQueue",
        method: "schedule_task",
        lean: "TaskQueue.schedule_task",
        sig: "&self,task:Task,mode:ScheduleMode,priority:Priority->KrillResult<()>",
        binders: "{Tk P Nm J ε R : Type} (name_of : Tk → Nm) (to_json : Tk → Except ε J) (to_millis : P → Nat) (q_schedule_task : Nm → J → Option Nat → ScheduleMode → Except ε R) (wrap_err : ε → ε) (task : Tk) (mode : ScheduleMode) (priority : P)",
        args: "name_of to_json to_millis q_schedule_task wrap_err task mode priority",
        ret: "Except ε R",
        num: Num::Nat,
        names: &[("task.name()", "(name_of task)"), ("mode", "mode"), ("serde_json::to_value(&task)", "(to_json task)"), ("priority.to_millis()", "(to_millis priority)"), ("self.q.schedule_task(&task_name,&json,Some(priority.to_millis()),mode).map_err(Error::from)", "(q_schedule_task task_name json (some (to_millis priority)) mode)")],
        methods: &[],
        state_ty: &[],
        elem_ty: "",
        enums: &[("ScheduleMode", "src/commons/queue.rs", "")],
        structs: &[],
        types: &[],
        opaque_lets: &[],
        effects: &[],
        wrapper: None,
        cond_effects: &[],
        self_fields: &[],
        mut_params: &[],
        extern_enums: &[],
        tail: None,
        note: "`Queue::schedule_task` (translated above from queue.rs) is the parameter `q_schedule_task`; serialisation of the task is `to_json` (its failure is returned); `Priority::to_millis` is `to_millis`; the conversion of the queue error (`map_err(Error::from)`) is not modelled.",
    },
    Spec {
        id: "C09",
        file: "src/server/mq.rs",
        ty: "TaskQueue",
        method: "reschedule",
        lean: "TaskQueue.reschedule",
        sig: "&self,task:&Ident,priority:Priority->KrillResult<()>",
        binders: "{K P R : Type} (to_millis : P → Nat) (q_reschedule_running_task : K → Option Nat → R) (task : K) (priority : P)",
        args: "to_millis q_reschedule_running_task task priority",
        ret: "R",
        num: Num::Nat,
        names: &[("self.q.reschedule_running_task(task,Some(priority.to_millis())).map_err(Error::from)", "(q_reschedule_running_task task (some (to_millis priority)))")],
        methods: &[],
        state_ty: &[],
        elem_ty: "",
        enums: &[],
        structs: &[],
        types: &[],
        opaque_lets: &[],
        effects: &[],
        wrapper: None,
        cond_effects: &[],
        self_fields: &[],
        mut_params: &[],
        extern_enums: &[],
        tail: None,
        note: "`Queue::reschedule_running_task` is the parameter; tied: the task keeps its own key and gets the time of the priority.",
    },
    Spec {
        id: "C10",
        file: "src/server/pubd/rrdp.rs",
        ty: "CurrentObjects",
        method: "apply_delta",
        lean: "CurrentObjects.apply_delta",
        sig: "&mutself,delta:DeltaElements->()",
        binders: "{E O : Type} (insert remove : O → E → O) (self_0 : O) (publishes updates withdraws : List E)",
        args: "insert remove self_0 publishes updates withdraws",
        ret: "O",
        num: Num::Nat,
        names: &[("publishes", "publishes"), ("updates", "updates"), ("withdraws", "withdraws")],
        methods: &[],
        state_ty: &[("self_0", "O")],
        elem_ty: "E",
        enums: &[],
        structs: &[],
        types: &[],
        opaque_lets: &[("(publishes,updates,withdraws)", "delta.unpack()")],
        effects: &[("self.0.insert(CurrentObjectUri::from(p.uri),p.base64)", "self_0", "insert self_0 p"), ("self.0.insert(CurrentObjectUri::from(u.uri),u.base64)", "self_0", "insert self_0 u"), ("self.0.remove(&CurrentObjectUri::from(w.uri))", "self_0", "remove self_0 w")],
        wrapper: None,
        cond_effects: &[],
        self_fields: &["0"],
        mut_params: &[],
        extern_enums: &[],
        tail: None,
        note: "the object map `O` and delta elements `E` are abstract: `self.0.insert(CurrentObjectUri::from(x.uri), x.base64)` is `insert objs x` (the content of the element under the canonical key of its URI), `self.0.remove(&CurrentObjectUri::from(w.uri))` is `remove objs w`; the three lists are `DeltaElements::unpack()` in protocol order; the result is the map after the call.",
    },
    Spec {
        id: "C11",
        file: "src/server/pubd/rrdp.rs",
        ty: "RrdpServer",
        method: "deltas_truncate_size",
        lean: "RrdpServer.deltas_truncate_size",
        sig: "&mutself->()",
        binders: "{Δ : Type} (size_of : Δ → Nat) (snap_size : Nat) (self_deltas : List Δ)",
        args: "size_of snap_size self_deltas",
        ret: "List Δ",
        num: Num::Nat,
        names: &[("self.snapshot().size_approx()", "snap_size"), ("&self.deltas", "self_deltas")],
        methods: &[(("delta.elements()", "size_approx"), "size_of delta")],
        state_ty: &[("self_deltas", "List Δ"), ("total_deltas_size", "Nat"), ("keep", "Nat")],
        elem_ty: "Δ",
        enums: &[],
        structs: &[],
        types: &[],
        opaque_lets: &[],
        effects: &[("self.deltas.truncate(keep)", "self_deltas", "self_deltas.take keep")],
        wrapper: None,
        cond_effects: &[],
        self_fields: &["deltas"],
        mut_params: &[],
        extern_enums: &[],
        tail: None,
        note: "deltas `Δ` are abstract (newest first); `delta.elements().size_approx()` is `size_of delta`, `self.snapshot().size_approx()` the parameter `snap_size`; `VecDeque::truncate(keep)` is `List.take keep`; the result is the delta list after the call.",
    },
    Spec {
        id: "C11",
        file: "src/server/pubd/rrdp.rs",
        ty: "RrdpServer",
        method: "update_rrdp_needed",
        lean: "RrdpServer.update_rrdp_needed",
        sig: "&self,rrdp_updates_config:RrdpUpdatesConfig->RrdpUpdateNeeded",
        binders: "(has_staged : Bool) (last_update interval now : Int)",
        args: "has_staged last_update interval now",
        ret: "RrdpUpdateNeeded",
        num: Num::Int,
        names: &[("self.staged_elements.values().any(|el|!el.0.is_empty())", "has_staged"), ("Duration::seconds(rrdp_updates_config.rrdp_delta_interval_min_seconds.into(),)", "interval"), ("self.last_update", "last_update"), ("Time::now()", "now")],
        methods: &[],
        state_ty: &[],
        elem_ty: "",
        enums: &[("RrdpUpdateNeeded", "src/server/pubd/rrdp.rs", " ")],
        structs: &[],
        types: &[("Time", "Int")],
        opaque_lets: &[],
        effects: &[],
        wrapper: None,
        cond_effects: &[],
        self_fields: &[],
        mut_params: &[],
        extern_enums: &[],
        tail: None,
        note: "`Time` and `Duration` are whole seconds (`Int`); `has_staged` = some publisher has a non-empty set of staged elements; the configured minimal interval is the parameter `interval`, the clock the parameter `now`.",
    },
    Spec {
        id: "C02",
        file: "src/server/ca/child.rs",
        ty: "ChildCertificates",
        method: "add_issued_certificate",
        lean: "ChildCertificates.add_issued_certificate",
        sig: "&mutself,issued:IssuedCertificate->()",
        binders: "{K C M : Type} (insert : M → K → C → M) (remove : M → K → M) (key_of : C → K) (self_issued self_suspended : M) (issued : C)",
        args: "insert remove key_of self_issued self_suspended issued",
        ret: "M × M",
        num: Num::Nat,
        names: &[("issued.key_identifier()", "(key_of issued)")],
        methods: &[],
        state_ty: &[],
        elem_ty: "",
        enums: &[],
        structs: &[],
        types: &[],
        opaque_lets: &[],
        effects: &[("self.suspended.remove(&ki)", "self_suspended", "remove self_suspended ki"), ("self.issued.insert(ki,issued)", "self_issued", "insert self_issued ki issued")],
        wrapper: None,
        cond_effects: &[],
        self_fields: &["issued", "suspended"],
        mut_params: &[],
        extern_enums: &[],
        tail: None,
        note: "the two maps `M` (`HashMap<KeyIdentifier, _>`), key identifiers `K` and certificates `C` are abstract: `map.insert(k, c)` is `insert map k c`, `map.remove(&k)` is `remove map k`; the conversions between issued / suspended / unsuspended certificates (`into_converted`) keep the certificate; the result is (issued, suspended) after the call.",
    },
    Spec {
        id: "C02",
        file: "src/server/ca/child.rs",
        ty: "ChildCertificates",
        method: "unsuspend_certificate",
        lean: "ChildCertificates.unsuspend_certificate",
        sig: "&mutself,unsuspended:UnsuspendedCert->()",
        binders: "{K C M : Type} (insert : M → K → C → M) (remove : M → K → M) (key_of : C → K) (self_issued self_suspended : M) (unsuspended : C)",
        args: "insert remove key_of self_issued self_suspended unsuspended",
        ret: "M × M",
        num: Num::Nat,
        names: &[("unsuspended.key_identifier()", "(key_of unsuspended)")],
        methods: &[],
        state_ty: &[],
        elem_ty: "",
        enums: &[],
        structs: &[],
        types: &[],
        opaque_lets: &[],
        effects: &[("self.suspended.remove(&ki)", "self_suspended", "remove self_suspended ki"), ("self.issued.insert(ki,unsuspended.into_converted())", "self_issued", "insert self_issued ki unsuspended")],
        wrapper: None,
        cond_effects: &[],
        self_fields: &["issued", "suspended"],
        mut_params: &[],
        extern_enums: &[],
        tail: None,
        note: "the two maps `M` (`HashMap<KeyIdentifier, _>`), key identifiers `K` and certificates `C` are abstract: `map.insert(k, c)` is `insert map k c`, `map.remove(&k)` is `remove map k`; the conversions between issued / suspended / unsuspended certificates (`into_converted`) keep the certificate; the result is (issued, suspended) after the call.",
    },
    Spec {
        id: "C02",
        file: "src/server/ca/child.rs",
        ty: "ChildCertificates",
        method: "suspend_certificate",
        lean: "ChildCertificates.suspend_certificate",
        sig: "&mutself,suspended:SuspendedCert->()",
        binders: "{K C M : Type} (insert : M → K → C → M) (remove : M → K → M) (key_of : C → K) (self_issued self_suspended : M) (suspended : C)",
        args: "insert remove key_of self_issued self_suspended suspended",
        ret: "M × M",
        num: Num::Nat,
        names: &[("suspended.key_identifier()", "(key_of suspended)")],
        methods: &[],
        state_ty: &[],
        elem_ty: "",
        enums: &[],
        structs: &[],
        types: &[],
        opaque_lets: &[],
        effects: &[("self.issued.remove(&ki)", "self_issued", "remove self_issued ki"), ("self.suspended.insert(ki,suspended)", "self_suspended", "insert self_suspended ki suspended")],
        wrapper: None,
        cond_effects: &[],
        self_fields: &["issued", "suspended"],
        mut_params: &[],
        extern_enums: &[],
        tail: None,
        note: "the two maps `M` (`HashMap<KeyIdentifier, _>`), key identifiers `K` and certificates `C` are abstract: `map.insert(k, c)` is `insert map k c`, `map.remove(&k)` is `remove map k`; the conversions between issued / suspended / unsuspended certificates (`into_converted`) keep the certificate; the result is (issued, suspended) after the call.",
    },
    Spec {
        id: "C02",
        file: "src/server/ca/child.rs",
        ty: "ChildCertificates",
        method: "remove_revoked_key",
        lean: "ChildCertificates.remove_revoked_key",
        sig: "&mutself,key:&KeyIdentifier->()",
        binders: "{K C M : Type} (insert : M → K → C → M) (remove : M → K → M) (self_issued self_suspended : M) (key : K)",
        args: "insert remove self_issued self_suspended key",
        ret: "M × M",
        num: Num::Nat,
        names: &[],
        methods: &[],
        state_ty: &[],
        elem_ty: "",
        enums: &[],
        structs: &[],
        types: &[],
        opaque_lets: &[],
        effects: &[("self.issued.remove(key)", "self_issued", "remove self_issued key"), ("self.suspended.remove(key)", "self_suspended", "remove self_suspended key")],
        wrapper: None,
        cond_effects: &[],
        self_fields: &["issued", "suspended"],
        mut_params: &[],
        extern_enums: &[],
        tail: None,
        note: "the two maps `M` (`HashMap<KeyIdentifier, _>`), key identifiers `K` and certificates `C` are abstract: `map.insert(k, c)` is `insert map k c`, `map.remove(&k)` is `remove map k`; the conversions between issued / suspended / unsuspended certificates (`into_converted`) keep the certificate; the result is (issued, suspended) after the call.",
    },
    Spec {
        id: "C02",
        file: "src/server/ca/child.rs",
        ty: "ChildCertificates",
        method: "is_empty",
        lean: "ChildCertificates.is_empty",
        sig: "&self->bool",
        binders: "{M : Type} (map_is_empty : M → Bool) (self_issued self_suspended : M)",
        args: "map_is_empty self_issued self_suspended",
        ret: "Bool",
        num: Num::Nat,
        names: &[("self.issued.is_empty()", "(map_is_empty self_issued)"), ("self.suspended.is_empty()", "(map_is_empty self_suspended)")],
        methods: &[],
        state_ty: &[],
        elem_ty: "",
        enums: &[],
        structs: &[],
        types: &[],
        opaque_lets: &[],
        effects: &[],
        wrapper: None,
        cond_effects: &[],
        self_fields: &[],
        mut_params: &[],
        extern_enums: &[],
        tail: None,
        note: "the serde skip predicate of `ResourceClass::certificates` (seed C06 round 1 dropped the `suspended` half).",
    },
    Spec {
        id: "C03",
        file: "src/server/ca/keys.rs",
        ty: "KeyState",
        method: "revoke",
        lean: "KeyState.revoke",
        sig: "&self,class_name:ResourceClassName,signer:&KrillSigner->KrillResult<Vec<RevocationRequest>>",
        binders: "{K Q ε : Type} (revoke_key : K → Except ε Q) (self_state : KeyState) (current_key new_key : K) (old_revoke_req : Q)",
        args: "revoke_key self_state current_key new_key old_revoke_req",
        ret: "Except ε (List Q)",
        num: Num::Nat,
        names: &[
            ("self", "self_state"),
            ("Ok(vec![])", "(Except.ok [])"),
            (
                "Ok(vec![Self::revoke_key(class_name,current.key_id,signer)?,])",
                "(match revoke_key current_key with | Except.error e => Except.error e | Except.ok q => Except.ok [q])",
            ),
            (
                "Ok(vec![Self::revoke_key(class_name.clone(),new.key_id,signer,)?,Self::revoke_key(class_name,current.key_id,signer)?,])",
                "(match revoke_key new_key with | Except.error e => Except.error e | Except.ok q1 => match revoke_key current_key with | Except.error e => Except.error e | Except.ok q2 => Except.ok [q1, q2])",
            ),
            (
                "Ok(vec![Self::revoke_key(class_name,current.key_id,signer)?,old.revoke_req.clone()])",
                "(match revoke_key current_key with | Except.error e => Except.error e | Except.ok q => Except.ok [q, old_revoke_req])",
            ),
        ],
        methods: &[],
        state_ty: &[],
        elem_ty: "",
        enums: &[("KeyState", "src/server/ca/keys.rs", "")],
        structs: &[],
        types: &[],
        opaque_lets: &[],
        effects: &[],
        wrapper: None,
        cond_effects: &[],
        self_fields: &[],
        mut_params: &[],
        extern_enums: &[],
        tail: None,
        note: "the payload of `KeyState` is flattened into the key identifiers of the current and the new key and the stored \
               revocation request of the old key; `Self::revoke_key(class, k, signer)` (a revocation request for `k`, or the \
               signer's error) is the parameter `revoke_key`; each arm's `Ok(vec![ … ?, … ])` is mapped as a whole (verbatim) \
               to the sequence of its `?`s; WHICH arm a variant takes is translated.",
    },
    Spec {
        id: "C12",
        file: "src/server/pubd/manager.rs",
        ty: "RepositoryManager",
        method: "rfc8181",
        lean: "RepositoryManager.rfc8181",
        sig: "&self,publisher_handle:PublisherHandle,msg_bytes:Bytes,krill:&KrillRuntime->KrillResult<Bytes>",
        binders: "{H CMS MSG Q B ε : Type} (publisher_handle : H) (decode_and_validate : H → Except ε CMS) (into_message : CMS → MSG) \
                  (as_query : MSG → Except ε Q) (is_list : Q → Bool) (process : H → Q → Except ε MSG) (error_msg : ε → MSG) \
                  (create_response : MSG → Except ε B) (wrap_err : ε → ε) (log_received : Except ε Unit) (log_reply : B → Except ε Unit)",
        args: "publisher_handle decode_and_validate into_message as_query is_list process error_msg create_response wrap_err log_received log_reply",
        ret: "Except ε B",
        num: Num::Nat,
        names: &[
            ("self.access.decode_and_validate(&publisher_handle,&msg_bytes)", "(decode_and_validate publisher_handle)"),
            ("cms.into_message()", "(into_message cms)"),
            ("message.as_query()", "(as_query message)"),
            ("query==publication::Query::List", "(is_list query)"),
            ("self.rfc8181_message(&publisher_handle,query,krill)", "(process publisher_handle query)"),
            ("response_result.is_err()", "(match response_result with | Except.error _ => true | Except.ok _ => false)"),
            ("e.to_rfc8181_error_code()", "e"),
            ("publication::ReportError::with_code(error_code)", "error_code"),
            ("publication::ErrorReply::for_error(report_error)", "report_error"),
            ("publication::Message::error(error_reply)", "(error_msg error_reply)"),
            ("self.access.create_response(response,krill.signer(),)", "(create_response response)"),
            ("?.to_bytes()", "id"),
            ("cms_logger.received(&msg_bytes)", "log_received"),
            ("cms_logger.reply(&response_bytes)", "(log_reply response_bytes)"),
        ],
        methods: &[],
        state_ty: &[],
        elem_ty: "",
        enums: &[],
        structs: &[],
        types: &[],
        opaque_lets: &[("cms_logger", "CmsLogger::for_rfc8181_rcvd(krill.config().rfc8181_log_dir.as_ref(),&publisher_handle,)")],
        effects: &[],
        wrapper: None,
        cond_effects: &[],
        self_fields: &[],
        mut_params: &[],
        extern_enums: &[],
        tail: None,
        note: "publisher handles `H`, the validated CMS `CMS`, protocol messages `MSG`, queries `Q`, reply bytes `B`, errors `ε` are \
               abstract: `decode_and_validate` (RepositoryAccessProxy: decode, look the publisher NAMED IN THE URL up, validate under \
               its registered identity certificate), `rfc8181_message` (`process`: list / publish for THAT publisher), \
               `create_response` (sign with the server's identity key) are parameters; an error of `process` becomes an error \
               REPLY (`error_msg`, the error code is the error), every other error is returned; `map_err` only rewrites the text.",
    },
    Spec {
        id: "C15",
        file: "src/tasigner/signer.rs",
        ty: "TrustAnchorSigner",
        method: "process_signer_request",
        lean: "TrustAnchorSigner.process_signer_request",
        sig: "&self,signed_request:TrustAnchorSignedRequest,ta_timing_config:TaTimingConfig,ta_mft_number_override:Option<u64>,signer:&KrillSigner->KrillResult<Vec<TrustAnchorSignerEvent>>",
        binders: "{ε R : Type} (validate : Except ε Unit) (current_number : Nat) (err_override : Nat → Nat → ε) (rest : Except ε R) (ta_mft_number_override : Option Nat)",
        args: "validate current_number err_override rest ta_mft_number_override",
        ret: "Except ε R",
        num: Num::Nat,
        names: &[
            ("ta_mft_number_override", "ta_mft_number_override"),
            ("signed_request.validate(&self.proxy_id)", "validate"),
            ("self.objects.revision().number()", "current_number"),
            (
                "Error::Custom(format!(\"TAmanifestnumberoverride{}doesnotexceedthecurrentnumber{}\",forced,self.objects.revision().number()))",
                "(err_override forced current_number)",
            ),
        ],
        methods: &[],
        state_ty: &[],
        elem_ty: "",
        enums: &[],
        structs: &[],
        types: &[],
        opaque_lets: &[],
        effects: &[],
        wrapper: None,
        cond_effects: &[],
        self_fields: &[],
        mut_params: &[],
        extern_enums: &[],
        tail: Some(("FROM:letmutobjects=self.objects.clone();", "rest")),
        note: "only the two guards in front of the signing are translated: the request validates under the proxy's identity \
               (`validate`), and a manifest-number override must EXCEED the signer's current manifest / CRL number \
               (`self.objects.revision().number()`, the parameter `current_number`); the signing itself is the parameter `rest`.",
    },
    Spec {
        id: "C06",
        file: "src/commons/eventsourcing/agg.rs",
        ty: "Aggregate",
        method: "apply_command",
        lean: "Aggregate.apply_command",
        sig: "&mutself,command:StoredCommand<Self>->()",
        binders: "{S E : Type} (increment_version : S → S) (apply : S → E → S) (into_events : Option (List E)) (self_agg : S)",
        args: "increment_version apply into_events self_agg",
        ret: "S",
        num: Num::Nat,
        names: &[("command.into_events()", "into_events")],
        methods: &[],
        state_ty: &[("self_agg", "S")],
        elem_ty: "E",
        enums: &[],
        structs: &[],
        types: &[],
        opaque_lets: &[],
        effects: &[
            ("self.increment_version()", "self_agg", "increment_version self_agg"),
            ("self.apply(event)", "self_agg", "apply self_agg event"),
        ],
        wrapper: None,
        cond_effects: &[],
        self_fields: &["agg"],
        mut_params: &[],
        extern_enums: &[],
        tail: None,
        note: "the provided method of `trait Aggregate` (every aggregate uses it); the aggregate value as a whole is the mutable \
               local `self_agg` (`S`), `increment_version` and `apply` are the trait's required methods (parameters), \
               `command.into_events()` - `Some(events)` for a stored success, `None` for an init command or a stored refusal - is \
               the parameter `into_events`; the result is the aggregate after the call.",
    },
];

type R = Result<String, String>;

#[derive(Clone, Copy, PartialEq)]
enum Ctl {
    /// the value of the sequence is the value of the function
    Fn,
    /// the value of the sequence is the value of an inner block (no `return` / `break`)
    Value,
    /// body of the `for` loop
    Loop,
}

#[derive(Clone, Copy)]
enum Item<'a> {
    S(&'a syn::Stmt),
    E(&'a syn::Expr),
    /// `let <name> = <the value of the preceding items>;`
    Bind(&'a str),
}

struct Tr<'a> {
    spec: &'a Spec,
    /// let-bound variables in scope: (name, mutable)
    locals: Vec<(String, bool)>,
    /// binders of enum payloads: in scope for Rust, only usable through the name map
    opaque: Vec<String>,
    /// Lean lines of the immutable `let`s seen before the loop (re-emitted in `.loop`/`.after`)
    prefix: Vec<String>,
    prefix_err: Option<String>,
    /// names of the loop state (the `let mut` variables in scope at the `for`)
    state: Vec<String>,
    in_loop: bool,
    seen_loop: bool,
    /// number of `for` loops translated so far; suffix of the current loop's `.loop`/`.after` ("" for the first,
    /// "2", "3", … for loops that follow in sequence)
    loop_count: usize,
    suffix: String,
    /// an immutable `let` was seen after a loop (it would not be in scope of a later loop's definitions)
    let_after_loop: bool,
    /// auxiliary definitions (`.after`, `.loop`)
    aux: Vec<String>,
}

fn is_log(m: &syn::Macro) -> bool {
    ["debug", "trace", "info", "warn", "error"].iter().any(|n| m.path.is_ident(n))
}

fn pad(n: usize) -> String {
    " ".repeat(n)
}

impl<'a> Tr<'a> {
    fn name(&self, c: &str) -> Option<&'static str> {
        self.spec.names.iter().find(|(k, _)| *k == c).map(|(_, v)| *v)
    }

    fn local(&self, n: &str) -> Option<bool> {
        self.locals.iter().rev().find(|(k, _)| k == n).map(|(_, m)| *m)
    }

    fn enum_known(&self, n: &str) -> bool {
        self.spec.enums.iter().any(|(e, _, _)| *e == n) || self.spec.extern_enums.iter().any(|(e, _)| *e == n)
    }

    fn enum_has_payload(&self, n: &str) -> bool {
        self.spec.enums.iter().any(|(e, _, p)| *e == n && !p.is_empty())
    }

    // ------------------------------------------------------------ expressions

    fn int_lit(&self, l: &syn::LitInt) -> R {
        match l.suffix() {
            "" | "usize" | "u8" | "u16" | "u32" | "u64" | "u128" | "i64" | "i32" | "i128" => {}
            s => return Err(format!("integer literal with suffix `{s}`")),
        }
        Ok(l.base10_digits().to_string())
    }

    /// A Lean term (of whatever type the Rust expression has; `bool` ↦ `Bool`).
    fn expr(&mut self, e: &syn::Expr, ind: usize) -> R {
        use syn::Expr as E;
        let c = compact(e);
        if let Some(v) = self.name(&c) {
            return Ok(v.to_string());
        }
        match e {
            E::Paren(p) => Ok(format!("({})", self.expr(&p.expr, ind)?)),
            E::Group(g) => self.expr(&g.expr, ind),
            E::Reference(r) if r.mutability.is_none() => self.expr(&r.expr, ind),
            E::Unary(u) => match u.op {
                syn::UnOp::Not(_) => Ok(format!("(!{})", self.expr(&u.expr, ind)?)),
                syn::UnOp::Deref(_) => self.expr(&u.expr, ind),
                syn::UnOp::Neg(_) if self.spec.num == Num::Int => Ok(format!("(-{})", self.expr(&u.expr, ind)?)),
                _ => Err(format!("unary operator in `{c}`")),
            },
            E::Lit(l) => match &l.lit {
                syn::Lit::Int(i) => self.int_lit(i),
                syn::Lit::Bool(b) => Ok(if b.value { "true".into() } else { "false".into() }),
                _ => Err(format!("literal `{c}`")),
            },
            E::Path(p) if p.qself.is_none() => {
                let segs: Vec<String> = p.path.segments.iter().map(|s| s.ident.to_string()).collect();
                if p.path.segments.iter().any(|s| !s.arguments.is_none()) {
                    return Err(format!("path with generic arguments `{c}`"));
                }
                match segs.as_slice() {
                    [x] if x == "None" && self.local("None").is_none() => Ok("none".into()),
                    [x] => {
                        if self.opaque.contains(x) {
                            return Err(format!("payload binder `{x}` used outside the name map"));
                        }
                        match self.local(x) {
                            Some(_) => Ok(lean_ident(x)),
                            None => Err(format!("identifier `{x}` is neither a local nor in the name map")),
                        }
                    }
                    [en, v] if self.enum_known(en) => Ok(format!("{en}.{}", lean_ident(v))),
                    _ => Err(format!("path `{c}`")),
                }
            }
            E::Binary(b) => {
                use syn::BinOp as B;
                let l = self.expr(&b.left, ind)?;
                let r = self.expr(&b.right, ind)?;
                let s = match b.op {
                    B::And(_) => format!("({l} && {r})"),
                    B::Or(_) => format!("({l} || {r})"),
                    B::Eq(_) => format!("decide ({l} = {r})"),
                    B::Ne(_) => format!("decide ({l} ≠ {r})"),
                    B::Lt(_) => format!("decide ({l} < {r})"),
                    B::Le(_) => format!("decide ({l} ≤ {r})"),
                    B::Gt(_) => format!("decide ({l} > {r})"),
                    B::Ge(_) => format!("decide ({l} ≥ {r})"),
                    B::Add(_) => format!("({l} + {r})"),
                    B::Mul(_) => format!("({l} * {r})"),
                    B::Sub(_) if self.spec.num == Num::Int => format!("({l} - {r})"),
                    B::Sub(_) => return Err(format!("unsigned subtraction `{c}` (may underflow; only saturating_sub is in the fragment)")),
                    _ => return Err(format!("binary operator in `{c}`")),
                };
                Ok(s)
            }
            E::If(_) | E::Block(_) | E::Match(_) => {
                let body = self.seq(&[Item::E(e)], Ctl::Value, ind + 2)?;
                Ok(format!("(\n{body})"))
            }
            E::MethodCall(m) => {
                if m.turbofish.is_some() {
                    return Err(format!("method call with turbofish `{c}`"));
                }
                let recv = compact(&m.receiver);
                let meth = m.method.to_string();
                if let Some((_, f)) = self.spec.methods.iter().find(|((r, n), _)| *r == recv && *n == meth) {
                    let mut s = format!("({f}");
                    for a in &m.args {
                        s.push(' ');
                        s.push_str(&self.atom(a, ind)?);
                    }
                    s.push(')');
                    return Ok(s);
                }
                let args: Vec<&syn::Expr> = m.args.iter().collect();
                match (meth.as_str(), args.as_slice()) {
                    ("saturating_sub", [a]) if self.spec.num == Num::Nat => {
                        Ok(format!("({} - {})", self.atom(&m.receiver, ind)?, self.atom(a, ind)?))
                    }
                    ("min", [a]) => Ok(format!("(min {} {})", self.atom(&m.receiver, ind)?, self.atom(a, ind)?)),
                    ("max", [a]) => Ok(format!("(max {} {})", self.atom(&m.receiver, ind)?, self.atom(a, ind)?)),
                    ("into", []) => self.expr(&m.receiver, ind),
                    ("ok_or", [a]) => Ok(format!(
                        "(match {} with | some v_q => Except.ok v_q | none => Except.error {})",
                        self.atom(&m.receiver, ind)?,
                        self.atom(a, ind)?
                    )),
                    // `r.map_err(|e| …)`: which error a refusal carries is outside the translation - the closure is
                    // the parameter `wrap_err : ε → ε` of the generated definition
                    ("map_err", [syn::Expr::Closure(_)]) => Ok(format!("(Except.mapError wrap_err {})", self.atom(&m.receiver, ind)?)),
                    ("is_none", []) => Ok(format!("{}.isNone", self.atom(&m.receiver, ind)?)),
                    ("is_some", []) => Ok(format!("{}.isSome", self.atom(&m.receiver, ind)?)),
                    _ => Err(format!("method call `{c}` (not in the method map)")),
                }
            }
            E::Call(call) => {
                let f = compact(&call.func);
                let args: Vec<&syn::Expr> = call.args.iter().collect();
                if let syn::Expr::Path(fp) = &*call.func {
                    let segs: Vec<String> = fp.path.segments.iter().map(|s| s.ident.to_string()).collect();
                    if let [en, v] = segs.as_slice() {
                        if self.enum_has_payload(en) {
                            let mut s = format!("({en}.{}", lean_ident(v));
                            for a in &args {
                                s.push(' ');
                                s.push_str(&self.atom(a, ind)?);
                            }
                            s.push(')');
                            return Ok(s);
                        }
                    }
                }
                match (f.as_str(), args.as_slice()) {
                    ("Some", [a]) => Ok(format!("(some {})", self.atom(a, ind)?)),
                    ("Ok", [a]) => Ok(format!("(Except.ok {})", self.atom(a, ind)?)),
                    ("Err", [a]) => Ok(format!("(Except.error {})", self.atom(a, ind)?)),
                    ("cmp::min" | "std::cmp::min", [a, b]) => Ok(format!("(min {} {})", self.atom(a, ind)?, self.atom(b, ind)?)),
                    ("cmp::max" | "std::cmp::max", [a, b]) => Ok(format!("(max {} {})", self.atom(a, ind)?, self.atom(b, ind)?)),
                    _ => Err(format!("call `{c}` (not in the name map)")),
                }
            }
            E::Struct(st) => {
                let name = compact(&st.path);
                let me = self.spec.ty.split('<').next().unwrap_or("");
                let name = if name == "Self" { me.to_string() } else { name };
                let ty = self
                    .spec
                    .structs
                    .iter()
                    .find(|(n, _, _, _)| *n == name)
                    .map(|(_, _, _, t)| *t)
                    .ok_or_else(|| format!("struct literal `{name} {{…}}` (struct not in the spec)"))?;
                if st.rest.is_some() || st.qself.is_some() {
                    return Err(format!("struct literal with `..` in `{c}`"));
                }
                let mut fields = Vec::new();
                for f in &st.fields {
                    let fname = match &f.member {
                        syn::Member::Named(i) => i.to_string(),
                        syn::Member::Unnamed(_) => return Err(format!("tuple struct literal `{c}`")),
                    };
                    fields.push(format!("{} := {}", lean_ident(&fname), self.expr(&f.expr, ind + 2)?));
                }
                Ok(format!("({{ {} }} : {ty})", fields.join(", ")))
            }
            E::Field(fl) => {
                if let (syn::Expr::Path(p), syn::Member::Named(m)) = (&*fl.base, &fl.member) {
                    if p.path.is_ident("self") && self.spec.self_fields.contains(&m.to_string().as_str()) {
                        return Ok(format!("self_{m}"));
                    }
                }
                Err(format!("field access `{c}` (not in the name map)"))
            }
            E::Tuple(t) if t.elems.len() >= 2 => {
                let mut parts = Vec::new();
                for el in &t.elems {
                    parts.push(self.expr(el, ind)?);
                }
                Ok(format!("({})", parts.join(", ")))
            }
            E::Cast(_) => Err(format!("cast `{c}` (not in the name map)")),
            E::Macro(_) => Err(format!("macro `{c}`")),
            _ => Err(format!("expression `{c}`")),
        }
    }

    /// `expr`, parenthesised unless it is obviously atomic.
    fn atom(&mut self, e: &syn::Expr, ind: usize) -> R {
        let s = self.expr(e, ind)?;
        if s.chars().all(|c| c.is_alphanumeric() || c == '_' || c == '.' || c == '«' || c == '»') || s.starts_with('(') {
            Ok(s)
        } else {
            Ok(format!("({s})"))
        }
    }

    /// A decidable Lean proposition for a Rust condition.
    fn prop(&mut self, e: &syn::Expr, ind: usize) -> R {
        use syn::BinOp as B;
        use syn::Expr as E;
        let c = compact(e);
        if let Some(v) = self.name(&c) {
            return Ok(format!("{v} = true"));
        }
        match e {
            E::Paren(p) => Ok(format!("({})", self.prop(&p.expr, ind)?)),
            E::Let(_) => Err(format!("`if let` / let-chain `{c}`")),
            E::Unary(u) if matches!(u.op, syn::UnOp::Not(_)) => Ok(format!("¬ ({})", self.prop(&u.expr, ind)?)),
            E::Binary(b) => {
                let cmp = match b.op {
                    B::Eq(_) => Some("="),
                    B::Ne(_) => Some("≠"),
                    B::Lt(_) => Some("<"),
                    B::Le(_) => Some("≤"),
                    B::Gt(_) => Some(">"),
                    B::Ge(_) => Some("≥"),
                    _ => None,
                };
                if let Some(op) = cmp {
                    let l = self.atom(&b.left, ind)?;
                    let r = self.atom(&b.right, ind)?;
                    return Ok(format!("{l} {op} {r}"));
                }
                match b.op {
                    B::And(_) => Ok(format!("({} ∧ {})", self.prop(&b.left, ind)?, self.prop(&b.right, ind)?)),
                    B::Or(_) => Ok(format!("({} ∨ {})", self.prop(&b.left, ind)?, self.prop(&b.right, ind)?)),
                    _ => Err(format!("operator in condition `{c}`")),
                }
            }
            _ => Ok(format!("{} = true", self.atom(e, ind)?)),
        }
    }

    fn pat(&mut self, p: &syn::Pat) -> R {
        use syn::Pat as P;
        let c = compact(p);
        let variant = |this: &Self, path: &syn::Path| -> R {
            let segs: Vec<String> = path.segments.iter().map(|s| s.ident.to_string()).collect();
            match segs.as_slice() {
                [en, v] if this.enum_known(en) => Ok(format!("{en}.{}", lean_ident(v))),
                _ => Err(format!("pattern path `{c}`")),
            }
        };
        match p {
            P::Wild(_) => Ok("_".into()),
            P::Ident(i) if i.ident == "None" && i.subpat.is_none() && i.by_ref.is_none() => Ok("none".into()),
            P::TupleStruct(t) if t.qself.is_none() && t.elems.len() == 1 && ["Some", "Ok", "Err"].contains(&compact(&t.path).as_str()) => {
                self.builtin_pat(p)
            }
            P::Paren(q) => Ok(format!("({})", self.pat(&q.pat)?)),
            P::Reference(r) => self.pat(&r.pat),
            P::Path(q) if q.qself.is_none() => variant(self, &q.path),
            P::TupleStruct(t) if t.qself.is_none() => {
                if let Some(en) = t.path.segments.first() {
                    if self.enum_has_payload(&en.ident.to_string()) {
                        return Err(format!("pattern `{c}` binds the payload of an enum generated with payload"));
                    }
                }
                for el in &t.elems {
                    self.payload_binder(el)?;
                }
                variant(self, &t.path)
            }
            P::Struct(s) if s.qself.is_none() => {
                for f in &s.fields {
                    self.payload_binder(&f.pat)?;
                }
                variant(self, &s.path)
            }
            P::Tuple(t) => {
                let mut parts = Vec::new();
                for el in &t.elems {
                    parts.push(self.pat(el)?);
                }
                Ok(format!("({})", parts.join(", ")))
            }
            P::Or(o) => {
                let mut parts = Vec::new();
                for el in &o.cases {
                    parts.push(self.pat(el)?);
                }
                Ok(parts.join(" | "))
            }
            P::Lit(l) => match &l.lit {
                syn::Lit::Int(i) => self.int_lit(i),
                syn::Lit::Bool(b) => Ok(if b.value { "true".into() } else { "false".into() }),
                _ => Err(format!("literal pattern `{c}`")),
            },
            _ => Err(format!("pattern `{c}`")),
        }
    }

    /// Patterns over the built-in `Option` / `Result` (`Some(p)`, `None`, `Ok(p)`, `Err(p)`, nested, tuples,
    /// `_`, identifiers): `Option` ↦ `Option`, `Result<T, E>` ↦ `Except E T`.  Identifiers become immutable
    /// locals of the arm; like in Rust they may shadow an immutable name in scope (Lean's `match` binders
    /// shadow the same way), never a mutable local.
    fn builtin_pat(&mut self, p: &syn::Pat) -> R {
        use syn::Pat as P;
        match p {
            P::Wild(_) => Ok("_".into()),
            P::Reference(r) => self.builtin_pat(&r.pat),
            P::Paren(q) => self.builtin_pat(&q.pat),
            P::Ident(i) if i.ident == "None" && i.subpat.is_none() && i.by_ref.is_none() => Ok("none".into()),
            P::Ident(i) if i.by_ref.is_none() && i.mutability.is_none() && i.subpat.is_none() => {
                let n = i.ident.to_string();
                if self.local(&n) == Some(true) || self.opaque.contains(&n) || n == "tail" || self.in_loop || self.seen_loop {
                    return Err(format!("binder `{n}` shadows a mutable / opaque name or occurs in a loop function"));
                }
                if let Some(v) = self.name(&n) {
                    if v != n {
                        return Err(format!("binder `{n}` shadows a name-map entry that is not the identity"));
                    }
                }
                self.locals.push((n.clone(), false));
                Ok(lean_ident(&n))
            }
            P::Path(q) if q.qself.is_none() && q.path.segments.len() == 2 && self.enum_known(&q.path.segments[0].ident.to_string()) => {
                Ok(format!("{}.{}", q.path.segments[0].ident, lean_ident(&q.path.segments[1].ident.to_string())))
            }
            P::TupleStruct(t)
                if t.qself.is_none() && t.path.segments.len() == 2 && self.enum_has_payload(&t.path.segments[0].ident.to_string()) =>
            {
                // a variant of an enum generated WITH its payload: the binders are ordinary locals
                let mut parts = vec![format!("{}.{}", t.path.segments[0].ident, lean_ident(&t.path.segments[1].ident.to_string()))];
                for el in &t.elems {
                    parts.push(self.builtin_pat(el)?);
                }
                Ok(format!("({})", parts.join(" ")))
            }
            P::TupleStruct(t) if t.qself.is_none() && t.elems.len() == 1 => {
                let ctor = match compact(&t.path).as_str() {
                    "Some" => "some",
                    "Ok" => "Except.ok",
                    "Err" => "Except.error",
                    o => return Err(format!("pattern constructor `{o}` inside a built-in pattern")),
                };
                let inner = self.builtin_pat(&t.elems[0])?;
                Ok(format!("({ctor} {inner})"))
            }
            P::Tuple(t) => {
                let mut parts = Vec::new();
                for el in &t.elems {
                    parts.push(self.builtin_pat(el)?);
                }
                Ok(format!("({})", parts.join(", ")))
            }
            _ => Err(format!("pattern `{}` inside a built-in pattern", compact(p))),
        }
    }

    /// Binders inside an enum payload: recorded as opaque (the generated enums carry no payload).
    fn payload_binder(&mut self, p: &syn::Pat) -> Result<(), String> {
        match p {
            syn::Pat::Wild(_) | syn::Pat::Rest(_) => Ok(()),
            syn::Pat::Ident(i) if i.subpat.is_none() => {
                self.opaque.push(i.ident.to_string());
                Ok(())
            }
            _ => Err(format!("payload pattern `{}`", compact(p))),
        }
    }

    // ------------------------------------------------------------ statements

    fn loop_continue(&self) -> String {
        let mut s = format!("{}.loop{} {}", self.spec.lean, self.suffix, self.spec.args);
        for v in &self.state {
            s.push(' ');
            s.push_str(&lean_ident(v));
        }
        s.push_str(" tail");
        s
    }

    fn after_call(&self) -> String {
        let mut s = format!("{}.after{} {}", self.spec.lean, self.suffix, self.spec.args);
        for v in &self.state {
            s.push(' ');
            s.push_str(&lean_ident(v));
        }
        s
    }

    fn block_items<'b>(b: &'b syn::Block, rest: &[Item<'b>]) -> Vec<Item<'b>> {
        let mut v: Vec<Item<'b>> = b.stmts.iter().map(Item::S).collect();
        v.extend_from_slice(rest);
        v
    }

    /// The Lean term for a statement sequence; `ctl` says what reaching the end means.
    fn seq(&mut self, items: &[Item], ctl: Ctl, ind: usize) -> R {
        if let Some((text, lean)) = self.spec.tail {
            if ctl == Ctl::Fn && !self.in_loop && !items.is_empty() {
                let mut joined = String::new();
                let mut plain = true;
                for it in items {
                    match it {
                        Item::S(st) => joined.push_str(&compact(*st)),
                        Item::E(e) => joined.push_str(&compact(*e)),
                        Item::Bind(_) => plain = false,
                    }
                }
                if std::env::var("VERIF_TR_DEBUG").is_ok() {
                    eprintln!("tail candidate: {joined}");
                }
                if plain && joined == text {
                    return Ok(format!("{}{lean}", pad(ind)));
                }
                // `FROM:<statement>`: everything from that statement on stands for the Lean term and is NOT compared (the
                // continuation of a function whose leading guards are what is translated)
                if let Some(marker) = text.strip_prefix("FROM:") {
                    if plain && joined.starts_with(marker) {
                        return Ok(format!("{}{lean}", pad(ind)));
                    }
                }
            }
        }
        let Some((first, rest)) = items.split_first() else {
            return match ctl {
                Ctl::Loop => Ok(format!("{}{}", pad(ind), self.loop_continue())),
                Ctl::Fn if !self.spec.self_fields.is_empty() => {
                    // the end of a `&mut self` function that returns `()`: its result is what it left in the fields
                    let fields: Vec<String> = self.spec.self_fields.iter().map(|f| format!("self_{f}")).collect();
                    Ok(format!("{}({})", pad(ind), fields.join(", ")))
                }
                _ => Err("control reaches the end of a block that must produce a value".into()),
            };
        };
        match first {
            Item::S(syn::Stmt::Macro(m)) => {
                if is_log(&m.mac) {
                    self.seq(rest, ctl, ind)
                } else {
                    Err(format!("macro `{}`", compact(&m.mac.path)))
                }
            }
            Item::S(syn::Stmt::Item(i)) => Err(format!("nested item `{}`", compact(i))),
            Item::S(syn::Stmt::Local(l)) if matches!(&l.pat, syn::Pat::Tuple(_))
                && self.spec.opaque_lets.iter().any(|(n, _)| *n == compact(&l.pat)) =>
            {
                // `let (a, b) = init;` listed as opaque: the names are only usable through the name map
                let pc = compact(&l.pat);
                let (_, init_c) = self.spec.opaque_lets.iter().find(|(n, _)| *n == pc).unwrap();
                let init = l.init.as_ref().ok_or_else(|| format!("`let {pc};` without initialiser"))?;
                if init.diverge.is_some() || compact(&init.expr) != *init_c {
                    return Err(format!("opaque `let {pc}` changed: `{}` (expected `{init_c}`)", compact(&init.expr)));
                }
                let syn::Pat::Tuple(t) = &l.pat else { unreachable!() };
                for el in &t.elems {
                    match el {
                        syn::Pat::Ident(i) if i.by_ref.is_none() && i.mutability.is_none() && i.subpat.is_none() => {
                            let n = i.ident.to_string();
                            if self.local(&n).is_some() || self.opaque.contains(&n) {
                                return Err(format!("opaque `let {pc}` shadows `{n}`"));
                            }
                            self.opaque.push(n);
                        }
                        _ => return Err(format!("opaque `let {pc}`: only identifiers in the tuple")),
                    }
                }
                self.seq(rest, ctl, ind)
            }
            Item::S(syn::Stmt::Local(l))
                if matches!(&l.pat, syn::Pat::TupleStruct(t) if compact(&t.path) == "Some" && t.elems.len() == 1)
                    && l.init.as_ref().map_or(false, |i| i.diverge.is_some()) =>
            {
                // `let Some(<binders>) = e else { <diverging block> };` ↦ `match e with | some <binders> => rest | none => <block>`
                if self.seen_loop || self.in_loop || ctl != Ctl::Fn {
                    return Err("let-else in a loop function or inside a value block".into());
                }
                let syn::Pat::TupleStruct(t) = &l.pat else { unreachable!() };
                let init = l.init.as_ref().unwrap();
                let (_, else_e) = init.diverge.as_ref().unwrap();
                let syn::Expr::Block(eb) = &**else_e else {
                    return Err("let-else whose else branch is not a block".into());
                };
                let scrut = self.expr(&init.expr, ind)?;
                let (nl, no) = (self.locals.len(), self.opaque.len());
                // the else branch sees none of the binders and must leave the function (`seq` rejects a block that
                // reaches its end without a value)
                let el = self.seq(&Self::block_items(&eb.block, &[]), ctl, ind + 4)?;
                self.locals.truncate(nl);
                self.opaque.truncate(no);
                let binder = self.some_binder(&t.elems[0])?;
                let r = self.seq(rest, ctl, ind + 4)?;
                Ok(format!("{p}match {scrut} with\n{p}| some {binder} =>\n{r}\n{p}| none =>\n{el}", p = pad(ind)))
            }
            Item::S(syn::Stmt::Local(l)) => {
                let (name, mutable) = match &l.pat {
                    syn::Pat::Ident(i) if i.by_ref.is_none() && i.subpat.is_none() => (i.ident.to_string(), i.mutability.is_some()),
                    syn::Pat::Type(t) => match &*t.pat {
                        syn::Pat::Ident(i) if i.by_ref.is_none() && i.subpat.is_none() => (i.ident.to_string(), i.mutability.is_some()),
                        _ => return Err(format!("let pattern `{}`", compact(&l.pat))),
                    },
                    _ => return Err(format!("let pattern `{}`", compact(&l.pat))),
                };
                let init = l.init.as_ref().ok_or_else(|| format!("`let {name};` without initialiser"))?;
                if init.diverge.is_some() {
                    return Err(format!("let-else for `{name}`"));
                }
                for a in &l.attrs {
                    // `#[cfg(unix)]` statements are part of the translated build (the daemon runs on unix only)
                    if compact(a) != "#[cfg(unix)]" {
                        return Err(format!("attribute `{}` on `let {name}`", compact(a)));
                    }
                }
                let reshadow = !mutable && self.local(&name) == Some(false) && !self.seen_loop && !self.in_loop && self.name(&name).is_none();
                if reshadow {
                    // `let x = f(x);` over an immutable `x`: the same shadowing in Lean; not before a loop
                    // (the `let`s before a loop are re-emitted inside it)
                    self.prefix_err.get_or_insert(format!("`let {name}` shadows an earlier `let {name}` before a loop"));
                } else if self.name(&name).is_some() || self.local(&name).is_some() || self.opaque.contains(&name) {
                    return Err(format!("`let {name}` shadows a name already in scope"));
                }
                if let Some((_, init_c)) = self.spec.opaque_lets.iter().find(|(n, _)| *n == name) {
                    if mutable || compact(&init.expr) != *init_c {
                        return Err(format!("opaque `let {name}` changed: `{}` (expected `{init_c}`)", compact(&init.expr)));
                    }
                    self.opaque.push(name);
                    return self.seq(rest, ctl, ind);
                }
                if name == "tail" {
                    return Err("local named `tail` (reserved by the loop translation)".into());
                }
                // `let x = e?.m();` where the name map has the key `?.m()` (a conversion of the unwrapped value: `to_bytes`)
                if let syn::Expr::MethodCall(mc) = &*init.expr {
                    if let (syn::Expr::Try(t), true) = (&*mc.receiver, mc.args.is_empty()) {
                        if let Some(conv) = self.name(&format!("?.{}()", mc.method)) {
                            if mutable || self.seen_loop || self.in_loop || ctl != Ctl::Fn {
                                return Err(format!("`let {name} = …?.{}()` that is mutable, in a loop function or inside a value block", mc.method));
                            }
                            let scrut = self.expr(&t.expr, ind + 2)?;
                            self.locals.push((name.clone(), false));
                            let r = self.seq(rest, ctl, ind + 4)?;
                            return Ok(format!(
                                "{p}match {scrut} with\n{p}| Except.error err_q => Except.error err_q\n{p}| Except.ok {n}_q =>\n{p4}let {n} := {conv} {n}_q\n{r}",
                                n = lean_ident(&name),
                                p = pad(ind),
                                p4 = pad(ind + 4)
                            ));
                        }
                    }
                }
                if let syn::Expr::Try(t) = &*init.expr {
                    // `let x = e?;` ↦ `match e with | .error err => .error err | .ok x => rest`
                    if mutable || self.seen_loop || self.in_loop || ctl != Ctl::Fn {
                        return Err(format!("`let {name} = …?` that is mutable, in a loop function or inside a value block"));
                    }
                    let scrut = self.expr(&t.expr, ind + 2)?;
                    self.locals.push((name.clone(), false));
                    let r = self.seq(rest, ctl, ind + 4)?;
                    return Ok(format!(
                        "{p}match {scrut} with\n{p}| Except.error err_q => Except.error err_q\n{p}| Except.ok {} =>\n{r}",
                        lean_ident(&name),
                        p = pad(ind)
                    ));
                }
                let (nl, no) = (self.locals.len(), self.opaque.len());
                let v = match self.expr(&init.expr, ind + 2) {
                    Ok(v) => v,
                    Err(e) => {
                        // an initialiser with effects / early exits (`let x = match … { arms that assign }`):
                        // the rest of the sequence moves into every branch, after `let x := <branch value>`
                        self.locals.truncate(nl);
                        self.opaque.truncate(no);
                        if mutable || self.seen_loop || ctl == Ctl::Value
                            || !matches!(&*init.expr, syn::Expr::Match(_) | syn::Expr::If(_) | syn::Expr::Block(_))
                        {
                            return Err(e);
                        }
                        let mut items = vec![Item::Bind(&name)];
                        items.extend_from_slice(rest);
                        return self.stmt_expr(&init.expr, false, &items, ctl, ind).map_err(|e2| format!("{e2} (as a pure value: {e})"));
                    }
                };
                let line = format!("let {} := {v}", lean_ident(&name));
                if self.seen_loop && !self.in_loop {
                    self.let_after_loop = true;
                }
                if !mutable && !self.seen_loop {
                    // must not depend on a mutable local (it is re-emitted inside the loop)
                    for (m, is_mut) in &self.locals {
                        if *is_mut && mentions(&init.expr, m) {
                            // only a problem when a loop follows (the `let` is re-emitted inside it)
                            self.prefix_err.get_or_insert(format!("`let {name}` before the loop depends on mutable `{m}`"));
                        }
                    }
                    self.prefix.push(line.clone());
                }
                self.locals.push((name, mutable));
                let r = self.seq(rest, ctl, ind)?;
                Ok(format!("{}{line}\n{r}", pad(ind)))
            }
            Item::S(syn::Stmt::Expr(e, semi)) => self.stmt_expr(e, semi.is_some(), rest, ctl, ind),
            Item::E(e) => self.stmt_expr(e, false, rest, ctl, ind),
            Item::Bind(n) => Err(format!("block that initialises `{n}` ends without a value")),
        }
    }

    /// Binders of `Some(<pat>)`: an identifier, `_`, or a tuple of those; they become locals.
    fn some_binder(&mut self, p: &syn::Pat) -> R {
        match p {
            syn::Pat::Wild(_) => Ok("_".into()),
            syn::Pat::Ident(i) if i.by_ref.is_none() && i.mutability.is_none() && i.subpat.is_none() => {
                let n = i.ident.to_string();
                if self.name(&n).is_some() || self.local(&n).is_some() || self.opaque.contains(&n) || n == "tail" {
                    return Err(format!("binder `{n}` shadows a name already in scope"));
                }
                self.locals.push((n.clone(), false));
                Ok(lean_ident(&n))
            }
            syn::Pat::Tuple(t) => {
                let mut parts = Vec::new();
                for el in &t.elems {
                    if matches!(el, syn::Pat::Tuple(_)) {
                        return Err(format!("nested tuple pattern `{}`", compact(p)));
                    }
                    parts.push(self.some_binder(el)?);
                }
                Ok(format!("({})", parts.join(", ")))
            }
            _ => Err(format!("pattern `{}` inside `Some(…)`", compact(p))),
        }
    }

    fn assign(&mut self, lhs: &syn::Expr, rhs: String, rest: &[Item], ctl: Ctl, ind: usize) -> R {
        let x = match lhs {
            syn::Expr::Path(p) if p.path.get_ident().is_some() => p.path.get_ident().unwrap().to_string(),
            syn::Expr::Field(fl) => match (&*fl.base, &fl.member) {
                (syn::Expr::Path(p), syn::Member::Named(m))
                    if p.path.is_ident("self") && self.spec.self_fields.contains(&m.to_string().as_str()) =>
                {
                    format!("self_{m}")
                }
                _ => return Err(format!("assignment to `{}`", compact(lhs))),
            },
            _ => return Err(format!("assignment to `{}`", compact(lhs))),
        };
        self.assign_named(&x, rhs, rest, ctl, ind)
    }

    fn assign_named(&mut self, x: &str, rhs: String, rest: &[Item], ctl: Ctl, ind: usize) -> R {
        let x = x.to_string();
        match self.local(&x) {
            Some(true) => {}
            _ => return Err(format!("assignment to `{x}` which is not a `let mut` local")),
        }
        if self.in_loop && ctl != Ctl::Loop && self.state.contains(&x) {
            return Err(format!("assignment to loop variable `{x}` inside a value block"));
        }
        if ctl == Ctl::Value {
            return Err(format!("assignment to `{x}` inside a value block"));
        }
        let r = self.seq(rest, ctl, ind)?;
        Ok(format!("{}let {} := {rhs}\n{r}", pad(ind), lean_ident(&x)))
    }

    fn stmt_expr(&mut self, e: &syn::Expr, has_semi: bool, rest: &[Item], ctl: Ctl, ind: usize) -> R {
        use syn::Expr as E;
        let c = compact(e);
        let effs: Vec<(&str, &str)> = self.spec.effects.iter().filter(|(k, _, _)| *k == c).map(|(_, v, r)| (*v, *r)).collect();
        if effs.len() == 1 {
            if !has_semi && !rest.is_empty() {
                return Err(format!("effect `{c}` used as a value"));
            }
            return self.assign_named(effs[0].0, effs[0].1.to_string(), rest, ctl, ind);
        }
        if effs.len() > 1 {
            // one statement that updates several mutable locals (a call of another `&mut self` method): the updates
            // are SIMULTANEOUS - every right-hand side sees the values before the statement
            if !has_semi && !rest.is_empty() {
                return Err(format!("effect `{c}` used as a value"));
            }
            for (var, _) in &effs {
                match self.local(var) {
                    Some(true) => {}
                    _ => return Err(format!("effect on `{var}` which is not a `let mut` local")),
                }
                if ctl == Ctl::Value || (self.in_loop && ctl != Ctl::Loop && self.state.contains(&var.to_string())) {
                    return Err(format!("effect on `{var}` inside a value block"));
                }
            }
            let r = self.seq(rest, ctl, ind)?;
            let lhs: Vec<String> = effs.iter().map(|(v, _)| lean_ident(v)).collect();
            let rhs: Vec<String> = effs.iter().map(|(_, r)| r.to_string()).collect();
            return Ok(format!("{}let ({}) := ({})\n{r}", pad(ind), lhs.join(", "), rhs.join(", ")));
        }
        match e {
            E::Macro(m) if is_log(&m.mac) => self.seq(rest, ctl, ind),
            E::If(i) if matches!(&*i.cond, E::Let(_)) => {
                let E::Let(l) = &*i.cond else { unreachable!() };
                // `if let Some(<binders>) = <expr> { A } [else { B }]`
                let inner = match &*l.pat {
                    syn::Pat::TupleStruct(t) if compact(&t.path) == "Some" && t.elems.len() == 1 => &t.elems[0],
                    p => return Err(format!("`if let {}` (only `Some(…)` is in the fragment)", compact(p))),
                };
                let (nl, no) = (self.locals.len(), self.opaque.len());
                let scrut = self.expr(&l.expr, ind)?;
                let binder = self.some_binder(inner)?;
                let then_items = Self::block_items(&i.then_branch, rest);
                let t = self.seq(&then_items, ctl, ind + 4)?;
                self.locals.truncate(nl);
                self.opaque.truncate(no);
                let else_items: Vec<Item> = match &i.else_branch {
                    None => rest.to_vec(),
                    Some((_, eb)) => match &**eb {
                        E::Block(b) if b.label.is_none() => Self::block_items(&b.block, rest),
                        _ => return Err(format!("else branch `{}` of an `if let`", compact(&**eb))),
                    },
                };
                let el = self.seq(&else_items, ctl, ind + 4)?;
                self.locals.truncate(nl);
                self.opaque.truncate(no);
                Ok(format!("{p}match {scrut} with\n{p}| some {binder} =>\n{t}\n{p}| none =>\n{el}", p = pad(ind)))
            }
            E::If(i) if matches!(&*i.cond, E::Binary(b) if matches!(b.op, syn::BinOp::And(_)) && matches!(&*b.left, E::Let(_))) => {
                // `if let Some(<binders>) = e && <cond> { A } [else { B }]` (let chain): A when the pattern matches and the
                // condition holds, B (or what follows) otherwise
                let E::Binary(b) = &*i.cond else { unreachable!() };
                let E::Let(l) = &*b.left else { unreachable!() };
                let inner = match &*l.pat {
                    syn::Pat::TupleStruct(t) if compact(&t.path) == "Some" && t.elems.len() == 1 => &t.elems[0],
                    p => return Err(format!("`if let {}` (only `Some(…)` is in the fragment)", compact(p))),
                };
                let (nl, no) = (self.locals.len(), self.opaque.len());
                let else_items: Vec<Item> = match &i.else_branch {
                    None => rest.to_vec(),
                    Some((_, eb)) => match &**eb {
                        E::Block(bl) if bl.label.is_none() => Self::block_items(&bl.block, rest),
                        _ => return Err(format!("else branch `{}` of a let chain", compact(&**eb))),
                    },
                };
                let el = self.seq(&else_items, ctl, ind + 6)?;
                self.locals.truncate(nl);
                self.opaque.truncate(no);
                let scrut = self.expr(&l.expr, ind)?;
                let binder = self.some_binder(inner)?;
                let cond = self.prop(&b.right, ind)?;
                let then_items = Self::block_items(&i.then_branch, rest);
                let t = self.seq(&then_items, ctl, ind + 6)?;
                self.locals.truncate(nl);
                self.opaque.truncate(no);
                Ok(format!(
                    "{p}match {scrut} with\n{p}| some {binder} =>\n{p4}if {cond} then\n{t}\n{p4}else\n{el}\n{p}| none =>\n{el}",
                    p = pad(ind),
                    p4 = pad(ind + 4)
                ))
            }
            E::If(i) => {
                let cc = compact(&*i.cond);
                let ce = self.spec.cond_effects.iter().find(|(k, _, _, _)| *k == cc).copied();
                let cond = match ce {
                    Some((_, b, _, _)) => format!("{b} = true"),
                    None => self.prop(&i.cond, ind)?,
                };
                let (nl, no) = (self.locals.len(), self.opaque.len());
                let then_items = Self::block_items(&i.then_branch, rest);
                let t = match ce {
                    Some((_, _, var, new)) => {
                        // the condition's effect happens first in the branch in which it is true
                        match self.local(var) {
                            Some(true) => {}
                            _ => return Err(format!("condition effect on `{var}` which is not a `let mut` local")),
                        }
                        if ctl == Ctl::Value {
                            return Err(format!("condition effect on `{var}` inside a value block"));
                        }
                        let inner = self.seq(&then_items, ctl, ind + 2)?;
                        format!("{}let {} := {new}\n{inner}", pad(ind + 2), lean_ident(var))
                    }
                    None => self.seq(&then_items, ctl, ind + 2)?,
                };
                self.locals.truncate(nl);
                self.opaque.truncate(no);
                let else_items: Vec<Item> = match &i.else_branch {
                    None => rest.to_vec(),
                    Some((_, eb)) => match &**eb {
                        E::Block(b) if b.label.is_none() => Self::block_items(&b.block, rest),
                        E::If(_) => {
                            let mut v = vec![Item::E(&**eb)];
                            v.extend_from_slice(rest);
                            v
                        }
                        _ => return Err(format!("else branch `{}`", compact(&**eb))),
                    },
                };
                let el = self.seq(&else_items, ctl, ind + 2)?;
                self.locals.truncate(nl);
                self.opaque.truncate(no);
                Ok(format!("{p}if {cond} then\n{t}\n{p}else\n{el}", p = pad(ind)))
            }
            E::Match(m) => {
                // a `match` followed by further statements: the statements follow every arm that does not leave the
                // function (like `if`); only at function level
                if !rest.is_empty() && !matches!(rest[0], Item::Bind(_)) && (ctl != Ctl::Fn || self.in_loop) {
                    return Err("`match` followed by further statements inside a loop or value block".into());
                }
                // the scrutinee may be mapped as a whole under the key `match <expr>` (e.g. the kind of a loop element
                // whose enum is generated without payload)
                let scrut = match self.name(&format!("match {}", compact(&*m.expr))) {
                    Some(v) => v.to_string(),
                    None => self.expr(&m.expr, ind)?,
                };
                let arms: Vec<&syn::Arm> = m.arms.iter().collect();
                self.match_arms(&scrut, &arms, rest, ctl, ind)
            }
            E::Block(b) if b.label.is_none() && rest.is_empty() && ctl != Ctl::Loop => {
                let (nl, no) = (self.locals.len(), self.opaque.len());
                let r = self.seq(&Self::block_items(&b.block, &[]), ctl, ind);
                self.locals.truncate(nl);
                self.opaque.truncate(no);
                r
            }
            E::Block(b) if b.label.is_none() && matches!(rest.first(), Some(Item::Bind(_))) => {
                // the block's locals stay in scope (shadowing is rejected anyway)
                self.seq(&Self::block_items(&b.block, rest), ctl, ind)
            }
            E::Try(t) if has_semi && !rest.is_empty() => {
                // `e?;` ↦ `match e with | .error err => .error err | .ok _ => rest`
                if self.seen_loop || self.in_loop || ctl != Ctl::Fn {
                    return Err(format!("`{c};` in a loop function or inside a value block"));
                }
                let scrut = self.expr(&t.expr, ind + 2)?;
                let r = self.seq(rest, ctl, ind + 4)?;
                Ok(format!("{p}match {scrut} with\n{p}| Except.error err_q => Except.error err_q\n{p}| Except.ok _ =>\n{r}", p = pad(ind)))
            }
            E::Return(r) => {
                if ctl == Ctl::Value {
                    return Err("`return` inside a value block".into());
                }
                let v = r.expr.as_ref().ok_or("`return;` without value")?;
                Ok(format!("{}{}", pad(ind), self.expr(v, ind)?))
            }
            E::Break(b) => {
                if ctl != Ctl::Loop || b.label.is_some() || b.expr.is_some() {
                    return Err(format!("`{c}` outside the loop shape"));
                }
                Ok(format!("{}{}", pad(ind), self.after_call()))
            }
            E::Continue(_) => Err("`continue`".into()),
            E::Assign(a) => {
                let rhs = self.expr(&a.right, ind + 2)?;
                self.assign(&a.left, rhs, rest, ctl, ind)
            }
            E::Binary(b) if matches!(b.op, syn::BinOp::AddAssign(_) | syn::BinOp::SubAssign(_) | syn::BinOp::MulAssign(_)) => {
                let l = self.atom(&b.left, ind)?;
                let r = self.atom(&b.right, ind)?;
                let rhs = match b.op {
                    syn::BinOp::AddAssign(_) => format!("{l} + {r}"),
                    syn::BinOp::MulAssign(_) => format!("{l} * {r}"),
                    syn::BinOp::SubAssign(_) if self.spec.num == Num::Int => format!("{l} - {r}"),
                    _ => return Err(format!("unsigned `-=` in `{c}` (may underflow)")),
                };
                self.assign(&b.left, rhs, rest, ctl, ind)
            }
            E::MethodCall(m) if m.method == "push" && m.args.len() == 1 && self.name(&c).is_none() => {
                let v = self.atom(&m.args[0], ind)?;
                let l = self.atom(&m.receiver, ind)?;
                self.assign(&m.receiver, format!("{l} ++ [{v}]"), rest, ctl, ind)
            }
            E::ForLoop(f) => self.for_loop(f, rest, ctl, ind),
            E::While(_) | E::Loop(_) => Err("`while` / `loop`".into()),
            _ if matches!(rest.first(), Some(Item::Bind(_))) => {
                let Some(Item::Bind(n)) = rest.first() else { unreachable!() };
                if has_semi {
                    return Err(format!("block that initialises `{n}` ends with `{c};` (unit value)"));
                }
                let v = self.expr(e, ind + 2)?;
                self.locals.push((n.to_string(), false));
                let r = self.seq(&rest[1..], ctl, ind)?;
                Ok(format!("{}let {} := {v}\n{r}", pad(ind), lean_ident(n)))
            }
            _ => {
                // a value
                if !rest.is_empty() {
                    return Err(format!("expression statement `{c}` (no effect in the fragment)"));
                }
                if ctl == Ctl::Loop {
                    return Err(format!("value `{c}` at the end of the loop body"));
                }
                if has_semi {
                    return Err(format!("block ends with `{c};` (unit value)"));
                }
                Ok(format!("{}{}", pad(ind), self.expr(e, ind)?))
            }
        }
    }

    /// `match scrut { arms }`.  An arm with a guard `p if g => b` becomes `| p => if g then b else (match scrut with
    /// <the arms after it>)`: when the pattern matches but the guard fails, Rust goes on with the later arms; the
    /// later arms are listed again after it for the values `p` does not match.
    fn match_arms(&mut self, scrut: &str, arms: &[&syn::Arm], rest: &[Item], ctl: Ctl, ind: usize) -> R {
        use syn::Expr as E;
        let mut s = format!("{}match {scrut} with", pad(ind));
        // shapes (pattern with its binders replaced by `_`) of the guarded arms seen so far: a later arm of exactly
        // that shape can only be reached through the guard's `else` (Lean rejects it as redundant in the outer match)
        let mut guarded_shapes: Vec<String> = Vec::new();
        let shape = |p: &str, binders: &[(String, bool)]| -> String {
            let mut out = String::new();
            let mut word = String::new();
            for ch in p.chars().chain(std::iter::once(' ')) {
                if ch.is_alphanumeric() || ch == '_' || ch == '.' || ch == '«' || ch == '»' {
                    word.push(ch);
                } else {
                    if !word.is_empty() {
                        if binders.iter().any(|(b, _)| lean_ident(b) == word) {
                            out.push('_');
                        } else {
                            out.push_str(&word);
                        }
                        word.clear();
                    }
                    out.push(ch);
                }
            }
            out.trim_end().to_string()
        };
        for (i, arm) in arms.iter().enumerate() {
            let (nl, no) = (self.locals.len(), self.opaque.len());
            let p = self.pat(&arm.pat)?;
            let sh = shape(&p, &self.locals[nl..]);
            if arm.guard.is_none() && guarded_shapes.contains(&sh) {
                self.locals.truncate(nl);
                self.opaque.truncate(no);
                continue;
            }
            if arm.guard.is_some() {
                guarded_shapes.push(sh);
            }
            let extra = if arm.guard.is_some() { 4 } else { 0 };
            let body = match &*arm.body {
                E::Block(b) if b.label.is_none() => self.seq(&Self::block_items(&b.block, rest), ctl, ind + 4 + extra)?,
                b => {
                    let mut items = vec![Item::E(b)];
                    items.extend_from_slice(rest);
                    self.seq(&items, ctl, ind + 4 + extra)?
                }
            };
            let body = match &arm.guard {
                None => body,
                Some((_, g)) => {
                    if i + 1 == arms.len() {
                        return Err(format!("guard on the last arm `{}`", compact(&arm.pat)));
                    }
                    let cond = self.prop(g, ind)?;
                    // the binders of this arm are not in scope of the later arms
                    self.locals.truncate(nl);
                    self.opaque.truncate(no);
                    let later = self.match_arms(scrut, &arms[i + 1..], rest, ctl, ind + 8)?;
                    format!("{p4}if {cond} then\n{body}\n{p4}else\n{later}", p4 = pad(ind + 4))
                }
            };
            self.locals.truncate(nl);
            self.opaque.truncate(no);
            s.push_str(&format!("\n{}| {p} =>\n{body}", pad(ind)));
        }
        Ok(s)
    }

    fn for_loop(&mut self, f: &syn::ExprForLoop, rest: &[Item], ctl: Ctl, ind: usize) -> R {
        if ctl != Ctl::Fn || self.in_loop || f.label.is_some() {
            return Err("`for` loop that is nested, labelled or inside a value block".into());
        }
        if self.let_after_loop {
            return Err("`let` between two loops (it would not be in scope of the second loop's definition)".into());
        }
        let var = match &*f.pat {
            syn::Pat::Ident(i) if i.by_ref.is_none() && i.mutability.is_none() && i.subpat.is_none() => i.ident.to_string(),
            p => return Err(format!("loop pattern `{}`", compact(p))),
        };
        // the list: through the name map, or an immutable local (a binder of `if let Some(list) = …`) - it is handed to
        // the loop function at the call site, where it is in scope
        let list_c = compact(&f.expr);
        let list_s: String = match self.name(&list_c) {
            Some(v) => v.to_string(),
            None if self.local(&list_c) == Some(false) => lean_ident(&list_c),
            None => return Err(format!("loop over `{list_c}` (not in the name map)")),
        };
        let list = list_s.as_str();
        if self.name(&var).is_some() || self.local(&var).is_some() || var == "tail" {
            return Err(format!("loop variable `{var}` shadows a name in scope"));
        }
        if self.spec.elem_ty.is_empty() {
            return Err("loop in a function whose spec has no element type".into());
        }
        if let Some(e) = &self.prefix_err {
            return Err(e.clone());
        }
        self.seen_loop = true;
        self.loop_count += 1;
        let my_suffix = if self.loop_count == 1 { String::new() } else { self.loop_count.to_string() };
        let my_state: Vec<String> = self.locals.iter().filter(|(_, m)| *m).map(|(n, _)| n.clone()).collect();
        self.state = my_state.clone();
        self.suffix = my_suffix.clone();
        let mut state_binders = String::new();
        for v in &self.state {
            let ty = self
                .spec
                .state_ty
                .iter()
                .find(|(n, _)| n == v)
                .map(|(_, t)| *t)
                .ok_or_else(|| format!("loop state variable `{v}` has no type in the spec"))?;
            state_binders.push_str(&format!(" ({} : {ty})", lean_ident(v)));
        }
        let prefix: String = self.prefix.iter().map(|l| format!("{}{l}\n", pad(2))).collect();
        let prefix4: String = self.prefix.iter().map(|l| format!("{}{l}\n", pad(6))).collect();
        let nl = self.locals.len();

        // what follows the loop
        // (may contain further loops in sequence: they get their own suffix and state, restored below)
        let after_body = self.seq(rest, Ctl::Fn, 2)?;
        self.state = my_state;
        self.suffix = my_suffix;
        self.locals.truncate(nl);
        self.aux.push(format!(
            "/-- what follows the loop of `{}::{}` (reached when the list is exhausted and from `break`) -/\ndef {}.after{} {}{} : {} :=\n{prefix}{after_body}\n",
            self.spec.ty, self.spec.method, self.spec.lean, self.suffix, self.spec.binders, state_binders, self.spec.ret
        ));

        // the loop
        self.in_loop = true;
        self.locals.push((var.clone(), false));
        let body = self.seq(&Self::block_items(&f.body, &[]), Ctl::Loop, 6)?;
        self.locals.truncate(nl);
        self.in_loop = false;
        self.aux.push(format!(
            "/-- the `for {var} in {}` loop of `{}::{}`: structural recursion over the list, carrying{} -/\ndef {}.loop{} {}{} (list : List {}) : {} :=\n  match list with\n  | [] => {}\n  | {} :: tail =>\n{prefix4}{body}\n",
            compact(&f.expr),
            self.spec.ty,
            self.spec.method,
            if self.state.is_empty() { " nothing".to_string() } else { format!(" `{}`", self.state.join("`, `")) },
            self.spec.lean,
            self.suffix,
            self.spec.binders,
            state_binders,
            {
                // one element type per loop, separated by `;` (the last one for any further loop)
                let tys: Vec<&str> = self.spec.elem_ty.split(';').collect();
                let k = self.suffix.parse::<usize>().unwrap_or(1) - 1;
                tys[k.min(tys.len() - 1)].trim()
            },
            self.spec.ret,
            self.after_call(),
            lean_ident(&var),
        ));
        let mut call = format!("{}{}.loop{} {}", pad(ind), self.spec.lean, self.suffix, self.spec.args);
        for v in &self.state {
            call.push(' ');
            call.push_str(&lean_ident(v));
        }
        call.push(' ');
        call.push_str(list);
        Ok(call)
    }
}

/// Does the expression mention the identifier (token-wise)?
fn mentions(e: &syn::Expr, ident: &str) -> bool {
    use quote::ToTokens;
    fn walk(ts: proc_macro2::TokenStream, ident: &str) -> bool {
        ts.into_iter().any(|t| match t {
            proc_macro2::TokenTree::Ident(i) => i == ident,
            proc_macro2::TokenTree::Group(g) => walk(g.stream(), ident),
            _ => false,
        })
    }
    walk(e.to_token_stream(), ident)
}

fn lean_ty(spec: &Spec, t: &syn::Type) -> R {
    let c = compact(t);
    spec.types
        .iter()
        .find(|(k, _)| *k == c)
        .map(|(_, v)| v.to_string())
        .ok_or_else(|| format!("type `{c}` has no Lean counterpart in the spec"))
}

fn gen_enum(repo: &Path, spec: &Spec, name: &str, file: &str, params: &str) -> R {
    let f = parse_file(repo, file);
    for item in &f.items {
        if let syn::Item::Enum(e) = item {
            if e.ident == name {
                let keep = !params.is_empty();
                let mut s = format!(
                    "/-- `enum {name}` ({file}){}. -/\ninductive {name}{}{params} where\n",
                    if keep { "" } else { "; payloads dropped" },
                    if keep { " " } else { "" }
                );
                for v in &e.variants {
                    let vn = lean_ident(&v.ident.to_string());
                    match &v.fields {
                        syn::Fields::Unit => s.push_str(&format!("  | {vn}\n")),
                        syn::Fields::Unnamed(u) if keep => {
                            let mut b = String::new();
                            for (i, fl) in u.unnamed.iter().enumerate() {
                                b.push_str(&format!(" (a{i} : {})", lean_ty(spec, &fl.ty)?));
                            }
                            s.push_str(&format!("  | {vn}{b}\n"));
                        }
                        syn::Fields::Named(n) if keep => {
                            let mut b = String::new();
                            for fl in &n.named {
                                b.push_str(&format!(" ({} : {})", lean_ident(&fl.ident.as_ref().unwrap().to_string()), lean_ty(spec, &fl.ty)?));
                            }
                            s.push_str(&format!("  | {vn}{b}\n"));
                        }
                        f => s.push_str(&format!("  | {vn}  -- payload `{}` dropped\n", compact(f))),
                    }
                }
                s.push_str("deriving DecidableEq, Repr\n");
                return Ok(s);
            }
        }
    }
    Err(format!("enum {name} not found in {file}"))
}

fn gen_struct(repo: &Path, spec: &Spec, name: &str, file: &str, params: &str) -> R {
    let f = parse_file(repo, file);
    for item in &f.items {
        if let syn::Item::Struct(st) = item {
            if st.ident == name {
                let syn::Fields::Named(n) = &st.fields else {
                    return Err(format!("struct {name} is not a struct with named fields"));
                };
                let mut s = format!("/-- `struct {name}` ({file}). -/\nstructure {name} {params} where\n");
                for fl in &n.named {
                    s.push_str(&format!("  {} : {}\n", lean_ident(&fl.ident.as_ref().unwrap().to_string()), lean_ty(spec, &fl.ty)?));
                }
                s.push_str("deriving DecidableEq, Repr\n");
                return Ok(s);
            }
        }
    }
    Err(format!("struct {name} not found in {file}"))
}

fn gen_fn(repo: &Path, spec: &Spec) -> R {
    let file = parse_file(repo, spec.file);
    let f = find_method(&file, spec.ty, spec.method).ok_or_else(|| format!("not found in {}", spec.file))?;
    let inputs: Vec<String> = f.sig.inputs.iter().map(|a| compact(a)).collect();
    let output = match &f.sig.output {
        syn::ReturnType::Default => "()".to_string(),
        syn::ReturnType::Type(_, t) => compact(t),
    };
    let sig = format!("{}{}->{}", if f.sig.asyncness.is_some() { "async " } else { "" }, inputs.join(","), output);
    if sig != spec.sig {
        return Err(format!("signature changed: `{sig}` (expected `{}`)", spec.sig));
    }
    // an `async fn` is accepted only when the spec's signature says `async ` (every `.await` must then be in the name map)
    if f.sig.unsafety.is_some() || !f.sig.generics.params.is_empty() {
        return Err("unsafe / generic function".into());
    }
    let mut tr = Tr {
        spec,
        locals: Vec::new(),
        opaque: Vec::new(),
        prefix: Vec::new(),
        prefix_err: None,
        state: Vec::new(),
        in_loop: false,
        seen_loop: false,
        loop_count: 0,
        suffix: String::new(),
        let_after_loop: false,
        aux: Vec::new(),
    };
    for fld in spec.self_fields {
        tr.locals.push((format!("self_{fld}"), true));
    }
    for mp in spec.mut_params {
        tr.locals.push((mp.to_string(), true));
    }
    let block: &syn::Block = match spec.wrapper {
        None => &f.block,
        Some((prefix, param, suffix)) => {
            // the first closure; for a parameter list `a,b` (several parameters): the first closure with exactly these
            // parameters, wherever it is nested - the code around it is still compared verbatim
            struct First<'a>(Option<&'a syn::ExprClosure>, Option<&'static str>);
            impl<'ast> syn::visit::Visit<'ast> for First<'ast> {
                fn visit_expr_closure(&mut self, c: &'ast syn::ExprClosure) {
                    if self.0.is_none() {
                        let ps: Vec<String> = c.inputs.iter().map(|p| compact(p)).collect();
                        if self.1.map_or(true, |want| ps.join(",") == want) {
                            self.0 = Some(c);
                            return;
                        }
                    }
                    syn::visit::visit_expr_closure(self, c);
                }
            }
            let mut fc = First(None, if param.contains(',') { Some(param) } else { None });
            syn::visit::Visit::visit_block(&mut fc, &f.block);
            let cl = fc.0.ok_or("no closure found in the body")?;
            let syn::Expr::Block(b) = &*cl.body else {
                return Err("the closure body is not a block".into());
            };
            let expected = format!("{{{prefix}|{param}|{}{suffix}}}", compact(&b.block));
            if compact(&f.block) != expected {
                if std::env::var("VERIF_TR_DEBUG").is_ok() {
                    eprintln!("function body: {}\nclosure body: {}", compact(&f.block), compact(&b.block));
                }
                return Err(format!("the code around the closure changed (expected `{prefix}|{param}|{{…}}{suffix}`)"));
            }
            if param.contains(',') {
                for p1 in param.split(',') {
                    tr.locals.push((p1.to_string(), false));
                }
            } else {
                tr.locals.push((param.to_string(), true));
            }
            &b.block
        }
    };
    let items: Vec<Item> = block.stmts.iter().map(Item::S).collect();
    let body = tr.seq(&items, Ctl::Fn, 2)?;
    let mut out = String::new();
    for a in &tr.aux {
        out.push_str(a);
        out.push('\n');
    }
    out.push_str(&format!(
        "/-- `{}::{}` ({}) -/\ndef {} {} : {} :=\n{body}\n",
        spec.ty, spec.method, spec.file, spec.lean, spec.binders, spec.ret
    ));
    Ok(out)
}

pub fn run(repo: &Path, table: &str) -> String {
    // `pure_fns:<ID>`: only the functions of property <ID> (one generated file per property, so that a function of
    // another property that leaves the fragment - or whose translation no longer compiles - cannot break this one)
    let only = table.strip_prefix("pure_fns:");
    let specs: Vec<&Spec> = SPECS.iter().filter(|s| only.is_none() || only == Some(s.id)).collect();
    let mut files: Vec<&str> = Vec::new();
    for s in &specs {
        if !files.contains(&s.file) {
            files.push(s.file);
        }
    }
    let mut out = lean_header(&files.join(", "));
    out.push_str("/-\nBodies of pure decision functions, translated by /verif/translate/src/pure_fns.rs.\n");
    out.push_str("Integers: usize/u32/u64 ↦ Nat, i64 ↦ Int; overflow and wrap-around are outside the translation\n");
    out.push_str("(unsigned `-` is rejected, `saturating_sub` is `Nat` subtraction, `.into()` is the identity).\n");
    out.push_str("Conditions are translated to decidable propositions (`a < b`, `∧`, `∨`, `¬`, `b = true`),\n");
    out.push_str("Boolean values to `Bool` terms (`decide (a < b)`, `&&`, `||`, `!`). Logging macros are skipped.\n\n");
    out.push_str("TRUSTED name maps (Rust expression ↦ Lean term; everything else is translated structurally):\n");
    for s in specs.iter().copied() {
        out.push_str(&format!("\n* `{}::{}` ({}, property {}) ↦ `KM.Gen.{}`\n", s.ty, s.method, s.file, s.id, s.lean));
        out.push_str(&format!("    signature (checked verbatim): `{}`\n", s.sig));
        out.push_str(&format!("    integers: {}\n", if s.num == Num::Nat { "Nat" } else { "Int" }));
        let same: Vec<&str> = s.names.iter().filter(|(k, v)| k == v).map(|(k, _)| *k).collect();
        if !same.is_empty() {
            out.push_str(&format!("    parameters passed through under their own name: {}\n", same.join(", ")));
        }
        for (k, v) in s.names {
            if k != v {
                out.push_str(&format!("    `{k}` ↦ `{v}`\n"));
            }
        }
        for (n, i) in s.opaque_lets {
            out.push_str(&format!("    `let {n} = {i};` is not translated; `{n}` is only used through the entries above\n"));
        }
        for (k, var, v) in s.effects {
            out.push_str(&format!("    statement `{k};` ↦ `{var} := {v}`\n"));
        }
        if let Some((pre, param, suf)) = s.wrapper {
            out.push_str(&format!("    only the closure body of `{pre}|{param}|{{…}}{suf}` is translated; `{param}` is a mutable local bound by the parameter of the same name\n"));
        }
        if !s.self_fields.is_empty() {
            out.push_str(&format!("    `&mut self`: the fields {} are mutable locals `self_<field>`; the function returns them as a tuple\n", s.self_fields.iter().map(|f| format!("`self.{f}`")).collect::<Vec<_>>().join(", ")));
        }
        for (c, b, var, new) in s.cond_effects {
            out.push_str(&format!("    condition `{c}` ↦ `{b}`, and where it is true `{var} := {new}` first\n"));
        }
        for (en, vs) in s.extern_enums {
            out.push_str(&format!("    `enum {en}` belongs to a dependency: generated without payload from the variant list {}\n", vs.join(" | ")));
        }
        if let Some((text, lean)) = s.tail.filter(|(t, _)| t.starts_with("FROM:")) {
            out.push_str(&format!("    everything from the statement `{}` on is the parameter `{lean}` and is NOT compared (only the guards in front of it are translated)\n", &text[5..]));
        } else if let Some((text, lean)) = s.tail {
            out.push_str(&format!("    the closing statements `{text}` (compared verbatim) ↦ `{lean}`\n"));
        }
        for ((r, m), v) in s.methods {
            out.push_str(&format!("    `{r}.{m}(args…)` ↦ `{v} args…`\n"));
        }
        out.push_str(&format!("    {}\n", s.note));
    }
    // one namespace per property file (`KM.Gen.<ID>`): two properties may translate functions over the same Rust enum
    let ns = match only { Some(id) => format!("KM.Gen.{id}"), None => "KM.Gen".to_string() };
    out.push_str(&format!("-/\nset_option linter.unusedVariables false\nnamespace {ns}\n\n"));

    let mut enums_done: Vec<&str> = Vec::new();
    for s in specs.iter().copied() {
        let mut text = String::new();
        let mut res: Result<(), String> = Ok(());
        for (en, file, params) in s.enums {
            if enums_done.contains(en) {
                continue;
            }
            match gen_enum(repo, s, en, file, params) {
                Ok(t) => {
                    text.push_str(&t);
                    text.push('\n');
                    enums_done.push(en);
                }
                Err(e) => res = Err(e),
            }
        }
        for (en, vs) in s.extern_enums {
            if enums_done.contains(en) {
                continue;
            }
            text.push_str(&format!("/-- `enum {en}` (a dependency's type; variants from the spec, payloads dropped). -/\ninductive {en} where\n"));
            for v in *vs {
                text.push_str(&format!("  | {}\n", lean_ident(v)));
            }
            text.push_str("deriving DecidableEq, Repr\n\n");
            enums_done.push(en);
        }
        for (sn, file, params, _) in s.structs {
            if enums_done.contains(sn) {
                continue;
            }
            match gen_struct(repo, s, sn, file, params) {
                Ok(t) => {
                    text.push_str(&t);
                    text.push('\n');
                    enums_done.push(sn);
                }
                Err(e) => res = Err(e),
            }
        }
        let res = res.and_then(|_| gen_fn(repo, s));
        match res {
            Ok(t) => {
                out.push_str(&text);
                out.push_str(&t);
                out.push('\n');
            }
            Err(e) => {
                let msg = format!("{}::{} ({}, property {}): outside the translated fragment: {e}", s.ty, s.method, s.file, s.id);
                eprintln!("pure_fns: {msg}");
                out.push_str(&text);
                out.push_str(&format!("-- UNTRANSLATED {}\n\n", msg.replace('\n', " ")));
                if only.is_none() || only == Some(s.id) {
                    FAILED.store(true, Ordering::SeqCst);
                }
            }
        }
    }
    out.push_str(&format!("end {ns}\n"));
    out
}
