//! C16 table `PanicSites.sites`: a census of the *potential panic sites* of krill's own code.
//!
//! Every `.rs` file under `/repo/src` except `src/verif/**`, `src/cli/**`, `src/bin/**`,
//! `**/upgrades/**`, `src/commons/test.rs` and any `test*.rs` is walked; items under
//! `#[cfg(test)]` / `#[test]` / `#[cfg(nlnetlabs_krill_verif)]` (items, statements and
//! expressions alike) are skipped.  For every function or method – qualified as
//! `<file without src/ and .rs>::<Type>::<fn>` or `<file>::<fn>`; closures and nested blocks
//! count for the function they are written in, nested `fn` items get their own row
//! `outer::inner` – the sites are counted by kind:
//!
//! * `slicefn` – `.split_at(..)`, `.split_off(..)`, `.swap_remove(..)`, `.copy_from_slice(..)`, `.drain(..)`, `.windows(..)`,
//!   `.chunks(..)`, `.step_by(..)`, … (`SLICE_FNS`): methods that panic on a bad position or length,
//! * `index`  – `x[i]`, `x[a..b]` (`ExprIndex`; the full range `x[..]` cannot panic and is left out),
//! * `unwrap` – `.unwrap()` / `.unwrap_err()`,
//! * `expect` – `.expect(..)` / `.expect_err(..)`,
//! * `panic`  – `panic!`, `unreachable!`, `unimplemented!`, `todo!`, `assert!`, `assert_eq!`,
//!              `assert_ne!` (not `debug_assert*`),
//! * `div`    – `/`, `%`, `/=`, `%=` where neither operand is a float literal,
//! * `shift`  – `<<`, `>>`, `<<=`, `>>=`,
//! * `exit`   – calls of `process::exit`, `std::process::exit`, `exit`, `process::abort`, `abort`.
//!
//! The arguments of function-like macros (`format!`, `info!`, `vec!`, `assert!`, …) are
//! parsed as a comma-separated expression list where that works, so an `.unwrap()` inside a
//! log line is counted too.  Bodies of `macro_rules!` definitions have no expression tree: they
//! are scanned token by token for `.unwrap(`, `.expect(`, the panic-family macros and
//! `process::exit` (rows `file::macro_rules!name`; none at present).
//!
//! Rows with the same (function, kind) – e.g. several `impl From<_> for T` blocks – are added up.
//! The theorem over the table (`Props/C16Src.lean`): every row has an entry with the *same*
//! count in the hand-written review table, so a new index or unwrap in an already reviewed
//! function breaks the proof as well.

use std::collections::BTreeMap;
use std::path::Path;
use syn::punctuated::Punctuated;
use syn::visit::Visit;
use crate::util::*;

pub const KINDS: &[&str] = &["index", "unwrap", "expect", "panic", "div", "shift", "exit", "slicefn"];

/// Methods of slices / strings / vectors that panic on a bad position or length (`slicefn`): an index in disguise.
/// (`remove` / `insert` are left out: the same names on maps never panic.)
pub const SLICE_FNS: &[&str] = &[
    "split_at", "split_at_mut", "split_off", "swap_remove", "copy_from_slice", "clone_from_slice", "drain", "rotate_left",
    "rotate_right", "chunks", "chunks_exact", "windows", "step_by",
];

fn out_of_scope(rel: &str) -> bool {
    let base = rel.rsplit('/').next().unwrap_or(rel);
    rel.starts_with("src/verif/")
        || rel.starts_with("src/cli/")
        || rel.starts_with("src/bin/")
        || rel.starts_with("src/upgrades/")
        || rel.contains("/upgrades/")
        || rel == "src/commons/test.rs"
        || base.starts_with("test")
}

/// `#[cfg(test)]`, `#[cfg(all(test, …))]`, `#[test]`, `#[tokio::test]`, `#[cfg(nlnetlabs_krill_verif)]`,
/// `#[cfg(feature = "hsm-tests-…")]`: not part of the daemon.
fn skipped(attrs: &[syn::Attribute]) -> bool {
    attrs.iter().any(|a| {
        // `#[test]`, `#[tokio::test]`
        if a.path().segments.last().map(|s| s.ident == "test").unwrap_or(false) {
            return true;
        }
        if !a.path().is_ident("cfg") {
            return false;
        }
        let c = compact(&a.meta);
        c == "cfg(test)"
            || c.contains("(test,")
            || c.contains(",test,")
            || c.contains(",test)")
            || (c.contains("nlnetlabs_krill_verif") && !c.contains("not(nlnetlabs_krill_verif"))
            || strip_not(&c).contains("hsm-tests-")
    })
}

/// The compact cfg text with every `not(…)` group removed (what is left is required positively).
fn strip_not(c: &str) -> String {
    let mut out = String::new();
    let mut rest = c;
    while let Some(i) = rest.find("not(") {
        out.push_str(&rest[..i]);
        let mut depth = 0usize;
        let mut end = rest.len();
        for (j, ch) in rest[i..].char_indices() {
            if ch == '(' {
                depth += 1;
            } else if ch == ')' {
                depth -= 1;
                if depth == 0 {
                    end = i + j + 1;
                    break;
                }
            }
        }
        rest = &rest[end..];
    }
    out.push_str(rest);
    out
}

fn expr_attrs(e: &syn::Expr) -> &[syn::Attribute] {
    use syn::Expr::*;
    match e {
        Array(x) => &x.attrs, Assign(x) => &x.attrs, Async(x) => &x.attrs, Await(x) => &x.attrs,
        Binary(x) => &x.attrs, Block(x) => &x.attrs, Break(x) => &x.attrs, Call(x) => &x.attrs,
        Cast(x) => &x.attrs, Closure(x) => &x.attrs, Const(x) => &x.attrs, Continue(x) => &x.attrs,
        Field(x) => &x.attrs, ForLoop(x) => &x.attrs, Group(x) => &x.attrs, If(x) => &x.attrs,
        Index(x) => &x.attrs, Infer(x) => &x.attrs, Let(x) => &x.attrs, Lit(x) => &x.attrs,
        Loop(x) => &x.attrs, Macro(x) => &x.attrs, Match(x) => &x.attrs, MethodCall(x) => &x.attrs,
        Paren(x) => &x.attrs, Path(x) => &x.attrs, Range(x) => &x.attrs, Reference(x) => &x.attrs,
        Repeat(x) => &x.attrs, Return(x) => &x.attrs, Struct(x) => &x.attrs, Try(x) => &x.attrs,
        TryBlock(x) => &x.attrs, Tuple(x) => &x.attrs, Unary(x) => &x.attrs, Unsafe(x) => &x.attrs,
        While(x) => &x.attrs, Yield(x) => &x.attrs,
        _ => &[],
    }
}

fn is_float_lit(e: &syn::Expr) -> bool {
    match e {
        syn::Expr::Lit(l) => matches!(l.lit, syn::Lit::Float(_)),
        syn::Expr::Paren(p) => is_float_lit(&p.expr),
        syn::Expr::Unary(u) => is_float_lit(&u.expr),
        syn::Expr::Cast(c) => is_float_lit(&c.expr),
        _ => false,
    }
}

struct V {
    file: String,
    /// enclosing type / trait names and function names
    scope: Vec<String>,
    counts: BTreeMap<(String, &'static str), usize>,
    /// (line, kind, function) of every site – printed when `PANIC_SITES_LOCS` is set
    locs: Vec<(usize, &'static str, String)>,
}

impl V {
    fn hit(&mut self, kind: &'static str, span: proc_macro2::Span) {
        let name = if self.scope.is_empty() {
            format!("{}::<top>", self.file)
        } else {
            format!("{}::{}", self.file, self.scope.join("::"))
        };
        self.locs.push((span.start().line, kind, name.clone()));
        *self.counts.entry((name, kind)).or_insert(0) += 1;
    }

    fn scan_tokens(&mut self, ts: proc_macro2::TokenStream) {
        use proc_macro2::TokenTree as T;
        let v: Vec<T> = ts.into_iter().collect();
        for (i, t) in v.iter().enumerate() {
            match t {
                T::Group(g) => self.scan_tokens(g.stream()),
                T::Ident(id) => {
                    let n = id.to_string();
                    let next_bang = matches!(v.get(i + 1), Some(T::Punct(p)) if p.as_char() == '!');
                    let next_call = matches!(v.get(i + 1), Some(T::Group(g)) if g.delimiter() == proc_macro2::Delimiter::Parenthesis);
                    let prev_dot = i > 0 && matches!(&v[i - 1], T::Punct(p) if p.as_char() == '.');
                    let prev_process = i > 2 && matches!(&v[i - 3], T::Ident(x) if x == "process");
                    if next_bang
                        && matches!(n.as_str(), "panic" | "unreachable" | "unimplemented" | "todo" | "assert" | "assert_eq" | "assert_ne")
                    {
                        self.hit("panic", id.span());
                    } else if prev_dot && next_call && (n == "unwrap" || n == "unwrap_err") {
                        self.hit("unwrap", id.span());
                    } else if prev_dot && next_call && (n == "expect" || n == "expect_err") {
                        self.hit("expect", id.span());
                    } else if prev_dot && next_call && SLICE_FNS.contains(&n.as_str()) {
                        self.hit("slicefn", id.span());
                    } else if next_call && prev_process && (n == "exit" || n == "abort") {
                        self.hit("exit", id.span());
                    }
                }
                _ => {}
            }
        }
    }

    fn mac(&mut self, m: &syn::Macro) {
        let name = m.path.segments.last().map(|s| s.ident.to_string()).unwrap_or_default();
        if matches!(
            name.as_str(),
            "panic" | "unreachable" | "unimplemented" | "todo" | "assert" | "assert_eq" | "assert_ne"
        ) {
            self.hit("panic", m.path.segments[0].ident.span());
        }
        // the arguments, where they are expressions
        if let Ok(args) = m.parse_body_with(Punctuated::<syn::Expr, syn::Token![,]>::parse_terminated) {
            for a in &args {
                self.visit_expr(a);
            }
        } else if let Ok(args) = m.parse_body_with(Punctuated::<syn::Expr, syn::Token![;]>::parse_terminated) {
            // vec![x; n]
            for a in &args {
                self.visit_expr(a);
            }
        }
    }
}

fn type_name(t: &syn::Type) -> String {
    match t {
        syn::Type::Path(p) => p.path.segments.last().map(|s| s.ident.to_string()).unwrap_or_default(),
        syn::Type::Reference(r) => type_name(&r.elem),
        other => compact(other),
    }
}

impl<'ast> Visit<'ast> for V {
    fn visit_item(&mut self, i: &'ast syn::Item) {
        let attrs: &[syn::Attribute] = match i {
            syn::Item::Fn(x) => &x.attrs,
            syn::Item::Mod(x) => &x.attrs,
            syn::Item::Impl(x) => &x.attrs,
            syn::Item::Trait(x) => &x.attrs,
            syn::Item::Const(x) => &x.attrs,
            syn::Item::Static(x) => &x.attrs,
            syn::Item::Macro(x) => &x.attrs,
            syn::Item::Struct(x) => &x.attrs,
            syn::Item::Enum(x) => &x.attrs,
            syn::Item::Use(x) => &x.attrs,
            _ => &[],
        };
        if skipped(attrs) {
            return;
        }
        if let syn::Item::Macro(m) = i {
            // `macro_rules!` definitions: there is no expression tree, the body is scanned token
            // by token for `.unwrap(`, `.expect(`, the panic-family macros and `process::exit`
            // (rows `file::macro_rules!name`); index / division / shift cannot be told from
            // patterns at token level and are not counted there.
            if m.mac.path.is_ident("macro_rules") {
                let name = m.ident.as_ref().map(|i| i.to_string()).unwrap_or_default();
                self.scope.push(format!("macro_rules!{name}"));
                self.scan_tokens(m.mac.tokens.clone());
                self.scope.pop();
            }
            return;
        }
        syn::visit::visit_item(self, i);
    }

    fn visit_item_impl(&mut self, i: &'ast syn::ItemImpl) {
        self.scope.push(type_name(&i.self_ty));
        syn::visit::visit_item_impl(self, i);
        self.scope.pop();
    }

    fn visit_item_trait(&mut self, i: &'ast syn::ItemTrait) {
        self.scope.push(i.ident.to_string());
        syn::visit::visit_item_trait(self, i);
        self.scope.pop();
    }

    fn visit_item_fn(&mut self, f: &'ast syn::ItemFn) {
        self.scope.push(f.sig.ident.to_string());
        syn::visit::visit_item_fn(self, f);
        self.scope.pop();
    }

    fn visit_impl_item(&mut self, i: &'ast syn::ImplItem) {
        let attrs: &[syn::Attribute] = match i {
            syn::ImplItem::Fn(x) => &x.attrs,
            syn::ImplItem::Const(x) => &x.attrs,
            _ => &[],
        };
        if skipped(attrs) {
            return;
        }
        syn::visit::visit_impl_item(self, i);
    }

    fn visit_impl_item_fn(&mut self, f: &'ast syn::ImplItemFn) {
        self.scope.push(f.sig.ident.to_string());
        syn::visit::visit_impl_item_fn(self, f);
        self.scope.pop();
    }

    fn visit_trait_item_fn(&mut self, f: &'ast syn::TraitItemFn) {
        if skipped(&f.attrs) {
            return;
        }
        self.scope.push(f.sig.ident.to_string());
        syn::visit::visit_trait_item_fn(self, f);
        self.scope.pop();
    }

    fn visit_stmt(&mut self, s: &'ast syn::Stmt) {
        let attrs: &[syn::Attribute] = match s {
            syn::Stmt::Local(l) => &l.attrs,
            syn::Stmt::Macro(m) => &m.attrs,
            syn::Stmt::Expr(e, _) => expr_attrs(e),
            syn::Stmt::Item(_) => &[],
        };
        if skipped(attrs) {
            return;
        }
        syn::visit::visit_stmt(self, s);
    }

    fn visit_stmt_macro(&mut self, m: &'ast syn::StmtMacro) {
        self.mac(&m.mac);
    }

    fn visit_field_value(&mut self, f: &'ast syn::FieldValue) {
        if skipped(&f.attrs) {
            return;
        }
        syn::visit::visit_field_value(self, f);
    }

    fn visit_arm(&mut self, a: &'ast syn::Arm) {
        if skipped(&a.attrs) {
            return;
        }
        syn::visit::visit_arm(self, a);
    }

    fn visit_expr(&mut self, e: &'ast syn::Expr) {
        if skipped(expr_attrs(e)) {
            return;
        }
        match e {
            syn::Expr::Index(ix) => {
                let full = matches!(&*ix.index, syn::Expr::Range(r) if r.start.is_none() && r.end.is_none());
                if !full {
                    self.hit("index", ix.bracket_token.span.open());
                }
            }
            syn::Expr::MethodCall(m) => {
                let n = m.method.to_string();
                if (n == "unwrap" || n == "unwrap_err") && m.args.is_empty() {
                    self.hit("unwrap", m.method.span());
                } else if (n == "expect" || n == "expect_err") && m.args.len() == 1 {
                    self.hit("expect", m.method.span());
                } else if SLICE_FNS.contains(&n.as_str()) {
                    self.hit("slicefn", m.method.span());
                }
            }
            syn::Expr::Binary(b) => {
                use syn::BinOp::*;
                match b.op {
                    Div(_) | Rem(_) | DivAssign(_) | RemAssign(_) => {
                        if !is_float_lit(&b.left) && !is_float_lit(&b.right) {
                            self.hit("div", syn::spanned::Spanned::span(&b.op));
                        }
                    }
                    Shl(_) | Shr(_) | ShlAssign(_) | ShrAssign(_) => self.hit("shift", syn::spanned::Spanned::span(&b.op)),
                    _ => {}
                }
            }
            syn::Expr::Call(c) => {
                if let syn::Expr::Path(p) = &*c.func {
                    let segs: Vec<String> = p.path.segments.iter().map(|s| s.ident.to_string()).collect();
                    let last = segs.last().map(|s| s.as_str()).unwrap_or("");
                    let prev = if segs.len() >= 2 { segs[segs.len() - 2].as_str() } else { "" };
                    if (last == "exit" || last == "abort") && (segs.len() == 1 || prev == "process") {
                        self.hit("exit", p.path.segments[0].ident.span());
                    }
                }
            }
            syn::Expr::Macro(m) => {
                self.mac(&m.mac);
                return;
            }
            _ => {}
        }
        syn::visit::visit_expr(self, e);
    }
}

fn walk(dir: &Path, root: &Path, out: &mut Vec<String>) {
    let mut entries: Vec<_> = std::fs::read_dir(dir).expect("read_dir").filter_map(|e| e.ok()).collect();
    entries.sort_by_key(|e| e.path());
    for e in entries {
        let p = e.path();
        if p.is_dir() {
            walk(&p, root, out);
        } else if p.extension().map(|x| x == "rs").unwrap_or(false) {
            out.push(p.strip_prefix(root).unwrap().to_string_lossy().to_string());
        }
    }
}

/// Module files declared by a `mod name;` that is itself under a skipped `cfg`
/// (e.g. `#[cfg(all(test, feature = "hsm"))] pub mod mocksigner;`): path prefixes to leave out.
fn skipped_modules(rel: &str, file: &syn::File) -> Vec<String> {
    let (dir, base) = rel.rsplit_once('/').unwrap_or(("", rel));
    let stem = base.strip_suffix(".rs").unwrap_or(base);
    let moddir = if stem == "mod" || stem == "lib" || stem == "main" { dir.to_string() } else { format!("{dir}/{stem}") };
    let mut out = vec![];
    for i in &file.items {
        if let syn::Item::Mod(m) = i {
            if m.content.is_none() && skipped(&m.attrs) {
                out.push(format!("{moddir}/{}.rs", m.ident));
                out.push(format!("{moddir}/{}/", m.ident));
            }
        }
    }
    out
}

pub fn census(repo: &Path) -> BTreeMap<(String, &'static str), usize> {
    let mut files = vec![];
    walk(&repo.join("src"), repo, &mut files);
    files.retain(|f| !out_of_scope(f));
    let parsed: Vec<(String, syn::File)> = files.iter().map(|rel| (rel.clone(), parse_file(repo, rel))).collect();
    let skip: Vec<String> = parsed.iter().flat_map(|(rel, f)| skipped_modules(rel, f)).collect();
    let mut all = BTreeMap::new();
    for (rel, file) in &parsed {
        if skip.iter().any(|p| rel == p || (p.ends_with('/') && rel.starts_with(p.as_str()))) {
            continue;
        }
        let short = rel.strip_prefix("src/").unwrap_or(rel).strip_suffix(".rs").unwrap_or(rel).to_string();
        let mut v = V { file: short, scope: vec![], counts: BTreeMap::new(), locs: vec![] };
        v.visit_file(file);
        if std::env::var_os("PANIC_SITES_LOCS").is_some() {
            for (line, kind, f) in &v.locs {
                eprintln!("{rel}:{line} {kind} {f}");
            }
        }
        for (k, n) in v.counts {
            *all.entry(k).or_insert(0) += n;
        }
    }
    all
}

pub fn run(repo: &Path) -> String {
    let all = census(repo);
    let mut out = lean_header(
        "src/**/*.rs (every index/slice, unwrap, expect, panic-family macro, integer division, shift and process exit, per function)",
    );
    out.push_str("namespace KM.Gen.PanicSites\n\n");
    out.push_str("/-- (qualified function, kind, number of sites of that kind in the function) -/\n");
    out.push_str("def sites : List (String × String × Nat) := [\n");
    let n = all.len();
    for (i, ((f, k), c)) in all.iter().enumerate() {
        out.push_str(&format!("  ({}, {}, {}){}\n", lean_str(f), lean_str(k), c, if i + 1 < n { "," } else { "" }));
    }
    out.push_str("]\n\n");
    // totals per kind, for the evidence / the report
    for k in KINDS {
        let sites: usize = all.iter().filter(|((_, kk), _)| kk == k).map(|(_, c)| *c).sum();
        let fns = all.iter().filter(|((_, kk), _)| kk == k).count();
        out.push_str(&format!("-- {k}: {sites} sites in {fns} functions\n"));
    }
    let fns: std::collections::BTreeSet<&String> = all.keys().map(|(f, _)| f).collect();
    out.push_str(&format!("-- total: {} sites, {} rows, {} functions\n", all.values().sum::<usize>(), n, fns.len()));
    out.push_str("\nend KM.Gen.PanicSites\n");
    out
}
