//! C18 table `lockSites`: every place in krill's source (outside `src/verif`, tests and the
//! HSM back-ends) where an in-process lock is taken (`.lock()`, `.read()`, `.write()` without
//! arguments), with
//!
//! * `lock`   – the lock it is (file + field/variable name; `ALIASES` maps local names to fields),
//! * `held`   – the guard is bound by a `let` (it lives on over the following statements) rather
//!              than being a temporary of one expression,
//! * `annotated` – the statement right before it (in its own block, or – for the first statement
//!              of a block – right before the statement that contains that block) is a
//!              `cfg(nlnetlabs_krill_verif)` statement calling `lockdep::want`, i.e. the lock
//!              site is visible to the lock-order recorder of the `conc` stream.
//!
//! The theorem over the table (`Props/C18.lean`): a lock with a `held` site anywhere is not a
//! leaf lock, and then every one of its sites is annotated.

use std::path::Path;
use syn::visit::Visit;
use crate::util::*;

const ALIASES: &[(&str, &str, &str)] = &[
    ("src/commons/eventsourcing/store.rs", "mutex", "history_cache"),
];

/// Local variables that hold a lock object (the key-value back-ends' scope locks).
const LOCALS: &[(&str, &str)] = &[
    ("src/commons/storage/backends/disk.rs", "file_lock"),
    ("src/commons/storage/backends/disk.rs", "root_lock"),
    ("src/commons/storage/backends/memory.rs", "_lock"),
    ("src/commons/storage/backends/memory.rs", "_root_lock"),
];

/// Fields of a struct in the file whose type mentions `Mutex<` or `RwLock<`.
fn lock_fields(file: &syn::File) -> Vec<String> {
    struct F(Vec<String>);
    impl<'ast> Visit<'ast> for F {
        fn visit_field(&mut self, f: &'ast syn::Field) {
            let t = compact(&f.ty);
            if t.contains("Mutex<") || t.contains("RwLock<") {
                if let Some(i) = &f.ident {
                    self.0.push(i.to_string());
                }
            }
        }
    }
    let mut v = F(vec![]);
    v.visit_file(file);
    v.0
}

/// Files whose locks are outside the model (see `Locks/Sites.lean` for the reasons).
fn out_of_scope(rel: &str) -> bool {
    rel.starts_with("src/verif/")
        || rel.starts_with("src/commons/crypto/signing/signers/pkcs11")
        || rel.starts_with("src/commons/crypto/signing/signers/kmip")
        || rel.starts_with("src/commons/crypto/signing/signers/mocksigner")
        || rel.starts_with("src/commons/crypto/signing/signers/probe.rs")
        || rel.starts_with("src/bin/")
        || rel.starts_with("src/cli/")
        || rel.ends_with("/test.rs") || rel.ends_with("/tests.rs")
}

/// Locks that guard a plain data structure of their own module and whose critical sections
/// call nothing outside it (read by hand; the sites are still listed, with `exempt := true`).
const EXEMPT: &[(&str, &str)] = &[
    ("src/commons/storage/backends/memory.rs", "locations"),
    ("src/commons/storage/backends/memory.rs", "namespaces"),
];

struct Site {
    file: String,
    func: String,
    lock: String,
    method: String,
    held: bool,
    annotated: bool,
}

struct V<'a> {
    file: &'a str,
    func: Vec<String>,
    /// names that are locks in this file
    locks: Vec<String>,
    /// a `want` annotation was seen at most two statements ago and no lock site used it yet
    prev_want: bool,
    sites: Vec<Site>,
    /// the init expression of the `let` being visited is a pure guard chain
    let_guard: bool,
    /// inside a `let x = loop { … }` / `match` whose value is (taken to be) the guard
    let_loop: bool,
}

fn has_cfg(attrs: &[syn::Attribute], what: &str) -> bool {
    attrs.iter().any(|a| a.path().is_ident("cfg") && compact(&a.meta).contains(what))
}

fn stmt_attrs(s: &syn::Stmt) -> &[syn::Attribute] {
    match s {
        syn::Stmt::Local(l) => &l.attrs,
        syn::Stmt::Expr(e, _) => expr_attrs(e),
        syn::Stmt::Macro(m) => &m.attrs,
        syn::Stmt::Item(_) => &[],
    }
}

fn expr_attrs(e: &syn::Expr) -> &[syn::Attribute] {
    match e {
        syn::Expr::Call(x) => &x.attrs,
        syn::Expr::MethodCall(x) => &x.attrs,
        syn::Expr::Block(x) => &x.attrs,
        syn::Expr::If(x) => &x.attrs,
        syn::Expr::Macro(x) => &x.attrs,
        _ => &[],
    }
}

fn is_verif_stmt(s: &syn::Stmt) -> bool {
    has_cfg(stmt_attrs(s), "nlnetlabs_krill_verif")
}

fn is_want_stmt(s: &syn::Stmt) -> bool {
    is_verif_stmt(s) && compact(s).contains("lockdep::want(")
}

/// `x.lock().unwrap()`, `x.write()?`, `x.read().expect("…")`, `x.lock()` …: the value is the guard.
fn guard_chain(e: &syn::Expr) -> bool {
    match e {
        syn::Expr::MethodCall(m) => {
            let name = m.method.to_string();
            if matches!(name.as_str(), "lock" | "read" | "write") && m.args.is_empty() {
                true
            } else if matches!(name.as_str(), "unwrap" | "expect" | "map_err") {
                guard_chain(&m.receiver)
            } else {
                false
            }
        }
        syn::Expr::Try(t) => guard_chain(&t.expr),
        syn::Expr::Paren(p) => guard_chain(&p.expr),
        _ => false,
    }
}

fn lock_name(file: &str, recv: &syn::Expr) -> String {
    let base = match recv {
        syn::Expr::Field(f) => match &f.member {
            syn::Member::Named(n) => n.to_string(),
            syn::Member::Unnamed(i) => i.index.to_string(),
        },
        syn::Expr::Path(p) => p.path.segments.last().map(|s| s.ident.to_string()).unwrap_or_default(),
        syn::Expr::MethodCall(m) => format!("{}()", m.method),
        other => compact(other),
    };
    for (f, from, to) in ALIASES {
        if *f == file && *from == base {
            return to.to_string();
        }
    }
    base
}

impl<'ast> Visit<'ast> for V<'_> {
    fn visit_item_mod(&mut self, m: &'ast syn::ItemMod) {
        if has_cfg(&m.attrs, "test") {
            return;
        }
        syn::visit::visit_item_mod(self, m);
    }

    fn visit_item_fn(&mut self, f: &'ast syn::ItemFn) {
        if has_cfg(&f.attrs, "test") || f.attrs.iter().any(|a| a.path().is_ident("test")) {
            return;
        }
        self.func.push(f.sig.ident.to_string());
        syn::visit::visit_item_fn(self, f);
        self.func.pop();
    }

    fn visit_impl_item_fn(&mut self, f: &'ast syn::ImplItemFn) {
        if has_cfg(&f.attrs, "test") {
            return;
        }
        self.func.push(f.sig.ident.to_string());
        syn::visit::visit_impl_item_fn(self, f);
        self.func.pop();
    }

    fn visit_block(&mut self, b: &'ast syn::Block) {
        // `prev_want` on entry: inherited by the first statements of the block (a lock taken in
        // `if let Some(m) = &self.x { m.lock() … }` is annotated before the `if`)
        let mut age = if self.prev_want { 0 } else { 99 };
        for s in &b.stmts {
            if is_verif_stmt(s) {
                // the annotations themselves (and what they contain) are not lock sites
                if is_want_stmt(s) {
                    self.prev_want = true;
                    age = 0;
                }
                continue;
            }
            // an annotation covers the next two statements (`let l = get_lock(); let g = l.write();`)
            if age >= 2 {
                self.prev_want = false;
            }
            let saved = (self.let_guard, self.let_loop);
            if let syn::Stmt::Local(l) = s {
                // a guard chain, or a `loop`/`match` that yields the guard (counted as held:
                // this only ever asks for more annotations)
                let init = l.init.as_ref().map(|i| &*i.expr);
                self.let_guard = init.map(guard_chain).unwrap_or(false);
                if matches!(init, Some(syn::Expr::Loop(_)) | Some(syn::Expr::Match(_))) {
                    self.let_loop = true;
                }
            } else {
                self.let_guard = false;
            }
            self.visit_stmt(s);
            self.let_guard = saved.0;
            self.let_loop = saved.1;
            age += 1;
        }
        self.prev_want = false;
    }

    fn visit_expr_closure(&mut self, c: &'ast syn::ExprClosure) {
        // a closure body that is a block is visited as a block; its first statement does not
        // inherit an annotation from outside (the closure runs later, under other locks)
        let saved = (self.prev_want, self.let_guard, self.let_loop);
        self.prev_want = false;
        self.let_guard = false;
        self.let_loop = false;
        syn::visit::visit_expr_closure(self, c);
        self.prev_want = saved.0;
        self.let_guard = saved.1;
        self.let_loop = saved.2;
    }

    fn visit_expr_method_call(&mut self, m: &'ast syn::ExprMethodCall) {
        let name = m.method.to_string();
        if matches!(name.as_str(), "lock" | "read" | "write") && m.args.is_empty() && m.turbofish.is_none() {
            let lock = lock_name(self.file, &m.receiver);
            if self.locks.contains(&lock) {
                self.sites.push(Site {
                    file: self.file.to_string(),
                    func: self.func.last().cloned().unwrap_or_default(),
                    lock,
                    method: name,
                    held: self.let_guard || self.let_loop,
                    annotated: self.prev_want,
                });
                self.prev_want = false;
            }
        }
        syn::visit::visit_expr_method_call(self, m);
    }
}

fn walk(dir: &Path, root: &Path, out: &mut Vec<String>) {
    let mut entries: Vec<_> = std::fs::read_dir(dir).expect("read_dir").filter_map(|e| e.ok()).collect();
    entries.sort_by_key(|e| e.path());
    for e in entries {
        let p = e.path();
        if p.is_dir() {
            walk(&p, root, out);
        } else if p.extension().map(|x| x == "rs").unwrap_or(false) {
            out.push(p.strip_prefix(root).unwrap().to_string_lossy().to_string());
        }
    }
}

pub fn run(repo: &Path) -> String {
    let mut files = vec![];
    walk(&repo.join("src"), repo, &mut files);
    let mut sites: Vec<Site> = vec![];
    for rel in &files {
        if out_of_scope(rel) {
            continue;
        }
        let file = parse_file(repo, rel);
        let mut locks = lock_fields(&file);
        for (f, _, to) in ALIASES {
            if f == rel { locks.push(to.to_string()); }
        }
        for (f, l) in LOCALS {
            if f == rel { locks.push(l.to_string()); }
        }
        let mut v = V { file: rel, func: vec![], locks, prev_want: false, sites: vec![], let_guard: false, let_loop: false };
        v.visit_file(&file);
        sites.extend(v.sites);
    }
    // lock identities: (file, name) numbered in sorted order
    let mut ids: Vec<(String, String)> = sites.iter().map(|s| (s.file.clone(), s.lock.clone())).collect();
    ids.sort();
    ids.dedup();
    let mut out = lean_header("src/**/*.rs (every `.lock()` / `.read()` / `.write()` without arguments)");
    out.push_str("namespace KM.Generated\n");
    out.push_str("structure LockSite where\n  file : String\n  func : String\n  lockName : String\n  method : String\n  lock : Nat\n  held : Bool\n  annotated : Bool\n  exempt : Bool\n\n");
    out.push_str("def lockSites : List LockSite := [\n");
    let n = sites.len();
    for (i, s) in sites.iter().enumerate() {
        let id = ids.iter().position(|x| x.0 == s.file && x.1 == s.lock).unwrap();
        out.push_str(&format!(
            "  ⟨{}, {}, {}, {}, {}, {}, {}, {}⟩{}\n",
            lean_str(&s.file), lean_str(&s.func), lean_str(&s.lock), lean_str(&s.method), id,
            s.held, s.annotated, EXEMPT.iter().any(|(f, l)| *f == s.file && *l == s.lock),
            if i + 1 < n { "," } else { "" }
        ));
    }
    out.push_str("]\nend KM.Generated\n");
    out
}
