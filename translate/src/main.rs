//! Translators: regenerate Lean tables from krill's source.
//!
//! usage: ktranslate <table> <repo-root> <out.lean>

use std::path::{Path, PathBuf};

mod util;
mod startup_guard;
mod event_tasks;
mod scheduler_tasks;
mod permissions;
mod routes;
mod apply_domain;
mod status_writes;
mod lock_sites;
mod pure_fns;
mod panic_sites;
mod command_kinds;
mod store_sections;

fn main() {
    let args: Vec<String> = std::env::args().collect();
    if args.len() != 4 {
        eprintln!("usage: ktranslate <table> <repo-root> <out.lean>");
        std::process::exit(2);
    }
    let repo = PathBuf::from(&args[2]);
    let out = Path::new(&args[3]);
    let text = match args[1].as_str() {
        "startup_guard" => startup_guard::run(&repo),
        "event_tasks" => event_tasks::run(&repo),
        "scheduler_tasks" => scheduler_tasks::run(&repo),
        "permissions" => permissions::run(&repo),
        "routes" => routes::run(&repo, out),
        "apply_domain" => apply_domain::run(&repo),
        "status_writes" => status_writes::run(&repo),
        "lock_sites" => lock_sites::run(&repo),
        "panic_sites" => panic_sites::run(&repo),
        "command_kinds" => command_kinds::run(&repo),
        "store_sections" => store_sections::run(&repo),
        t if t == "pure_fns" || t.starts_with("pure_fns:") => pure_fns::run(&repo, t),
        t => {
            eprintln!("unknown table {t}");
            std::process::exit(2);
        }
    };
    // only rewrite when changed, so that lake does not rebuild needlessly
    let old = std::fs::read_to_string(out).unwrap_or_default();
    if old != text {
        if let Some(p) = out.parent() {
            std::fs::create_dir_all(p).expect("mkdir");
        }
        std::fs::write(out, text).expect("write");
    }
    if pure_fns::FAILED.load(std::sync::atomic::Ordering::SeqCst) {
        std::process::exit(1);
    }
}
