//! C07 / C06 table `storeMethods`: for every method of `AggregateStore<A>`, `WalStore<T>`
//! (src/commons/eventsourcing/{store,wal}.rs) and `KeyValueStore` (src/commons/storage/store.rs)
//! the storage operations it performs, in source order, each tagged with the critical section
//! it is in.
//!
//! * A *critical section* is the closure handed to `self.kv.execute(<lock>, |kv| …)` (for
//!   `KeyValueStore` itself: `self.execute(<lock>, |kv| …)`).  `<lock>` is `Some(..)` – the lock of
//!   one scope (`Lock.scope`) –, `None` – the store-wide lock (`Lock.global`) – or a parameter of
//!   the method (`Lock.arg`: the `KeyValueStore` helpers pass their caller's choice on).  The
//!   sections of a method are numbered in source order; `depth` is the nesting level (1 = not
//!   inside another section).
//! * Operations: calls on the closure's transaction parameter (`kv.has`, `kv.get`, `kv.store`,
//!   `kv.delete`, `kv.list_keys`, `kv.delete_scope`, … – every method of `Transaction` is known
//!   here, an unknown one aborts the translation), the cache helpers `self.cache_get / cache_update
//!   / cache_remove`, direct accesses `self.cache.read() / .write()`, the history-cache mutex
//!   (`.lock()`), and *calls of other methods* of the same store (`self.has(..)`,
//!   `Self::update_history_records(..)`) or of a `KeyValueStore` helper (`self.kv.has(..)`): `call m`.
//!   A called method runs its own sections.  Calls of methods without any operation (key and
//!   scope builders, `create`) are left out, and so are those methods' rows.
//! * `rep` – the operation is inside a `loop` / `while` / `for`.
//! * Arguments are evaluated before the call: `kv.store(.., &x)` is recorded after whatever
//!   its arguments do; `execute` opens its section before the closure.
//! * `#[cfg(test)]` and `#[cfg(nlnetlabs_krill_verif)]` items, methods and statements are skipped.

use std::path::Path;
use syn::visit::Visit;
use crate::util::*;

const STORES: &[(&str, &str, &str)] = &[
    ("agg", "src/commons/eventsourcing/store.rs", "AggregateStore<A>"),
    ("wal", "src/commons/eventsourcing/wal.rs", "WalStore<T>"),
    ("kv", "src/commons/storage/store.rs", "KeyValueStore"),
];

/// Every method of `Transaction` (src/commons/storage/backends/mod.rs) + the cache operations.
const PRIMS: &[&str] = &[
    "has", "has_scope", "get", "list_keys", "list_scopes", "store", "move_value", "move_scope",
    "delete", "delete_scope", "clear",
    "cache_get", "cache_update", "cache_remove", "cache_read", "cache_write", "hcache_lock",
];
const N_TRANSACTION: usize = 11;

#[derive(Clone, Debug, PartialEq)]
enum Op {
    Prim(&'static str),
    /// (store prefix, method)
    Call(String, String),
}

#[derive(Clone, Debug)]
struct SecOp {
    op: Op,
    /// None = outside; Some((index, lock, depth))
    sec: Option<(usize, &'static str, usize)>,
    rep: bool,
    line: usize,
}

struct Row {
    store: &'static str,
    name: String,
    line: usize,
    sections: usize,
    ops: Vec<SecOp>,
}

fn has_cfg(attrs: &[syn::Attribute], what: &str) -> bool {
    attrs.iter().any(|a| a.path().is_ident("cfg") && compact(&a.meta).contains(what))
}

fn skipped(attrs: &[syn::Attribute]) -> bool {
    has_cfg(attrs, "test") || has_cfg(attrs, "nlnetlabs_krill_verif") || attrs.iter().any(|a| a.path().is_ident("test"))
}

fn stmt_attrs(s: &syn::Stmt) -> &[syn::Attribute] {
    match s {
        syn::Stmt::Local(l) => &l.attrs,
        syn::Stmt::Expr(e, _) => match e {
            syn::Expr::Call(x) => &x.attrs,
            syn::Expr::MethodCall(x) => &x.attrs,
            syn::Expr::Block(x) => &x.attrs,
            syn::Expr::If(x) => &x.attrs,
            syn::Expr::Macro(x) => &x.attrs,
            _ => &[],
        },
        syn::Stmt::Macro(m) => &m.attrs,
        syn::Stmt::Item(_) => &[],
    }
}

fn is_self(e: &syn::Expr) -> bool {
    matches!(e, syn::Expr::Path(p) if p.path.is_ident("self"))
}

fn is_self_field(e: &syn::Expr, field: &str) -> bool {
    if let syn::Expr::Field(f) = e {
        if is_self(&f.base) {
            if let syn::Member::Named(n) = &f.member {
                return n == field;
            }
        }
    }
    false
}

fn path_ident(e: &syn::Expr) -> Option<String> {
    match e {
        syn::Expr::Path(p) if p.path.segments.len() == 1 => Some(p.path.segments[0].ident.to_string()),
        syn::Expr::Reference(r) => path_ident(&r.expr),
        syn::Expr::Paren(p) => path_ident(&p.expr),
        _ => None,
    }
}

struct V<'a> {
    store: &'static str,
    /// methods of the store this method belongs to
    own: &'a [String],
    /// methods of `KeyValueStore`
    kvm: &'a [String],
    params: Vec<String>,
    /// names bound to the transaction inside the sections we are in
    kv_names: Vec<String>,
    /// sections we are in: (index, lock)
    stack: Vec<(usize, &'static str)>,
    next: usize,
    loops: usize,
    ops: Vec<SecOp>,
    func: String,
}

impl V<'_> {
    fn push(&mut self, op: Op, line: usize) {
        let sec = self.stack.last().map(|(i, l)| (*i, *l, self.stack.len()));
        self.ops.push(SecOp { op, sec, rep: self.loops > 0, line });
    }

    fn prim(&mut self, name: &str, line: usize) {
        let p = PRIMS.iter().find(|p| **p == name).unwrap_or_else(|| {
            panic!("store_sections: {}::{}: unknown storage operation `{name}` (line {line})", self.store, self.func)
        });
        self.push(Op::Prim(p), line);
    }

    fn lock_of(&self, e: &syn::Expr) -> &'static str {
        let c = compact(e);
        if c == "None" {
            "global"
        } else if c.starts_with("Some(") {
            "scope"
        } else if self.params.contains(&c) {
            "arg"
        } else {
            panic!("store_sections: {}::{}: cannot tell which lock `execute({c}, ..)` takes", self.store, self.func)
        }
    }
}

impl<'ast> Visit<'ast> for V<'_> {
    fn visit_block(&mut self, b: &'ast syn::Block) {
        for s in &b.stmts {
            if skipped(stmt_attrs(s)) {
                continue;
            }
            self.visit_stmt(s);
        }
    }

    fn visit_item(&mut self, _: &'ast syn::Item) {
        // nested items are not part of the method's control flow
    }

    fn visit_expr_loop(&mut self, l: &'ast syn::ExprLoop) {
        self.loops += 1;
        syn::visit::visit_expr_loop(self, l);
        self.loops -= 1;
    }

    fn visit_expr_while(&mut self, l: &'ast syn::ExprWhile) {
        // the condition is evaluated on every round too
        self.loops += 1;
        syn::visit::visit_expr_while(self, l);
        self.loops -= 1;
    }

    fn visit_expr_for_loop(&mut self, l: &'ast syn::ExprForLoop) {
        // the iterated expression is evaluated once
        self.visit_expr(&l.expr);
        self.loops += 1;
        self.visit_block(&l.body);
        self.loops -= 1;
    }

    fn visit_expr_call(&mut self, c: &'ast syn::ExprCall) {
        for a in &c.args {
            self.visit_expr(a);
        }
        if let syn::Expr::Path(p) = &*c.func {
            let segs: Vec<String> = p.path.segments.iter().map(|s| s.ident.to_string()).collect();
            if segs.len() == 2 && segs[0] == "Self" && self.own.contains(&segs[1]) {
                let line = p.path.segments[1].ident.span().start().line;
                self.push(Op::Call(self.store.to_string(), segs[1].clone()), line);
                return;
            }
        }
        self.visit_expr(&c.func);
    }

    fn visit_expr_method_call(&mut self, m: &'ast syn::ExprMethodCall) {
        let name = m.method.to_string();
        let line = m.method.span().start().line;
        self.visit_expr(&m.receiver);
        // the section primitive
        let opens = name == "execute"
            && ((self.store != "kv" && is_self_field(&m.receiver, "kv")) || (self.store == "kv" && is_self(&m.receiver)));
        if opens {
            if m.args.len() != 2 {
                panic!("store_sections: {}::{}: execute with {} arguments", self.store, self.func, m.args.len());
            }
            let lock = self.lock_of(&m.args[0]);
            let syn::Expr::Closure(cl) = &m.args[1] else {
                panic!("store_sections: {}::{}: the second argument of execute is not a closure (line {line})", self.store, self.func);
            };
            let kvname = match cl.inputs.first() {
                Some(syn::Pat::Ident(i)) => i.ident.to_string(),
                other => panic!("store_sections: {}::{}: closure parameter {:?}", self.store, self.func, other.map(compact)),
            };
            let idx = self.next;
            self.next += 1;
            self.stack.push((idx, lock));
            self.kv_names.push(kvname);
            let saved = self.loops;
            self.visit_expr(&cl.body);
            self.loops = saved;
            self.kv_names.pop();
            self.stack.pop();
            return;
        }
        for a in &m.args {
            self.visit_expr(a);
        }
        if let Some(r) = path_ident(&m.receiver) {
            if self.kv_names.contains(&r) {
                if !PRIMS[..N_TRANSACTION].contains(&name.as_str()) {
                    panic!("store_sections: {}::{}: unknown Transaction method `{name}` (line {line})", self.store, self.func);
                }
                self.prim(&name, line);
                return;
            }
        }
        if self.store != "kv" && is_self_field(&m.receiver, "kv") {
            if !self.kvm.contains(&name) {
                panic!("store_sections: {}::{}: unknown KeyValueStore method `{name}` (line {line})", self.store, self.func);
            }
            self.push(Op::Call("kv".into(), name), line);
            return;
        }
        if is_self(&m.receiver) {
            if matches!(name.as_str(), "cache_get" | "cache_update" | "cache_remove") {
                self.prim(&name, line);
            } else if self.own.contains(&name) {
                self.push(Op::Call(self.store.to_string(), name), line);
            }
            return;
        }
        if m.args.is_empty() && m.turbofish.is_none() {
            let recv = compact(&m.receiver);
            match name.as_str() {
                "read" if recv.ends_with("cache") => self.prim("cache_read", line),
                "write" if recv.ends_with("cache") => self.prim("cache_write", line),
                "lock" if recv.contains("cache") || recv == "mutex" => self.prim("hcache_lock", line),
                _ => {}
            }
        }
    }
}

fn methods_of<'a>(file: &'a syn::File, ty: &str) -> Vec<&'a syn::ImplItemFn> {
    let mut v = vec![];
    for item in &file.items {
        if let syn::Item::Impl(imp) = item {
            if skipped(&imp.attrs) || imp.trait_.is_some() || compact(&imp.self_ty) != ty {
                continue;
            }
            for it in &imp.items {
                if let syn::ImplItem::Fn(f) = it {
                    if !skipped(&f.attrs) {
                        v.push(f);
                    }
                }
            }
        }
    }
    v
}

fn ctor(store: &str, name: &str) -> String {
    lean_ident(&format!("{store}_{name}"))
}

pub fn run(repo: &Path) -> String {
    let files: Vec<syn::File> = STORES.iter().map(|(_, rel, _)| parse_file(repo, rel)).collect();
    let names: Vec<Vec<String>> = STORES
        .iter()
        .zip(&files)
        .map(|((_, _, ty), f)| methods_of(f, ty).iter().map(|m| m.sig.ident.to_string()).collect())
        .collect();
    for (i, (_, rel, ty)) in STORES.iter().enumerate() {
        if names[i].is_empty() {
            panic!("store_sections: no `impl {ty}` method found in {rel}");
        }
    }
    let kvm = names[2].clone();
    let mut rows: Vec<Row> = vec![];
    for (i, (store, _, ty)) in STORES.iter().enumerate() {
        for f in methods_of(&files[i], ty) {
            let params: Vec<String> = f
                .sig
                .inputs
                .iter()
                .filter_map(|a| match a {
                    syn::FnArg::Typed(t) => match &*t.pat {
                        syn::Pat::Ident(p) => Some(p.ident.to_string()),
                        _ => None,
                    },
                    _ => None,
                })
                .collect();
            let mut v = V {
                store,
                own: &names[i],
                kvm: &kvm,
                params,
                kv_names: vec![],
                stack: vec![],
                next: 0,
                loops: 0,
                ops: vec![],
                func: f.sig.ident.to_string(),
            };
            v.visit_block(&f.block);
            rows.push(Row {
                store,
                name: f.sig.ident.to_string(),
                line: f.sig.ident.span().start().line,
                sections: v.next,
                ops: v.ops,
            });
        }
    }
    // methods without any operation (and the calls of them) are left out
    loop {
        let empty: Vec<(String, String)> =
            rows.iter().filter(|r| r.ops.is_empty()).map(|r| (r.store.to_string(), r.name.clone())).collect();
        if empty.is_empty() {
            break;
        }
        rows.retain(|r| !r.ops.is_empty());
        for r in rows.iter_mut() {
            r.ops.retain(|o| match &o.op {
                Op::Call(s, n) => !empty.contains(&(s.clone(), n.clone())),
                _ => true,
            });
        }
    }
    // a call must name a method that has a row
    for r in &rows {
        for o in &r.ops {
            if let Op::Call(s, n) = &o.op {
                if !rows.iter().any(|x| x.store == s && &x.name == n) {
                    panic!("store_sections: {}::{} calls {s}::{n}, which has no row", r.store, r.name);
                }
            }
        }
    }

    let mut out = lean_header(
        "src/commons/eventsourcing/store.rs (AggregateStore), wal.rs (WalStore), src/commons/storage/store.rs (KeyValueStore): \
         storage operations per method with their critical sections",
    );
    out.push_str("namespace KM.Generated.StoreSections\n\n");
    out.push_str("/-- The methods that perform storage operations (`<store>_<method>`). -/\ninductive StoreMethod where\n");
    for r in &rows {
        out.push_str(&format!("  | {}\n", ctor(r.store, &r.name)));
    }
    out.push_str("deriving DecidableEq, Repr\n\n");
    out.push_str("/-- Storage operations: the methods of `Transaction`, the cache accesses, calls of other methods. -/\ninductive KvOp where\n");
    for p in PRIMS {
        out.push_str(&format!("  | {}\n", lean_ident(p)));
    }
    out.push_str("  | call (m : StoreMethod)\nderiving DecidableEq, Repr\n\n");
    out.push_str("/-- `execute(Some(scope), …)`, `execute(None, …)`, `execute(<parameter>, …)`. -/\n");
    out.push_str("inductive Lock where\n  | scope\n  | global\n  | arg\nderiving DecidableEq, Repr\n\n");
    out.push_str("inductive Sec where\n  | outside\n  | inside (idx : Nat) (lock : Lock) (depth : Nat)\nderiving DecidableEq, Repr\n\n");
    out.push_str("structure SectionOp where\n  op : KvOp\n  sec : Sec\n  /-- inside a loop -/\n  rep : Bool\nderiving DecidableEq, Repr\n\n");
    out.push_str("structure MethodRow where\n  name : StoreMethod\n  /-- number of `execute` calls in the body -/\n  sections : Nat\n  ops : List SectionOp\nderiving Repr\n\n");
    out.push_str("open StoreMethod KvOp Lock Sec in\ndef storeMethods : List MethodRow := [\n");
    let n = rows.len();
    for (i, r) in rows.iter().enumerate() {
        out.push_str(&format!("  -- {}::{} (line {})\n", STORES.iter().find(|s| s.0 == r.store).unwrap().2, r.name, r.line));
        out.push_str(&format!("  ⟨{}, {}, [\n", ctor(r.store, &r.name), r.sections));
        let k = r.ops.len();
        for (j, o) in r.ops.iter().enumerate() {
            let op = match &o.op {
                Op::Prim(p) => format!("KvOp.{}", lean_ident(p)),
                Op::Call(s, m) => format!("call {}", ctor(s, m)),
            };
            let sec = match o.sec {
                None => "outside".to_string(),
                Some((idx, lock, depth)) => format!("inside {idx} Lock.{lock} {depth}"),
            };
            out.push_str(&format!("    ⟨{op}, {sec}, {}⟩{}  -- line {}\n", o.rep, if j + 1 < k { "," } else { "" }, o.line));
        }
        out.push_str(&format!("  ]⟩{}\n", if i + 1 < n { "," } else { "" }));
    }
    out.push_str("]\n\n");
    out.push_str("/-- `<store>.<method>` as the harness and the reports spell it. -/\ndef StoreMethod.text : StoreMethod → String\n");
    for r in &rows {
        out.push_str(&format!("  | .{} => {}\n", ctor(r.store, &r.name), lean_str(&format!("{}.{}", r.store, r.name))));
    }
    out.push_str("\nend KM.Generated.StoreSections\n");
    out
}
