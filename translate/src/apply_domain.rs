//! Panic domains of event application (C04/C06): for every `CertAuthEvent` variant handled by
//! `CertAuth::apply` (src/server/ca/certauth.rs) whether the arm unwraps a class / child
//! look-up, which `ResourceClass::apply_*` methods it calls, and – from the `match` on the key
//! state inside those methods (src/server/ca/rc.rs, delegations into `impl KeyState` of
//! src/server/ca/keys.rs) – the `KeyState` variants whose arm does **not** reach
//! `panic!` / `unreachable!` / `unimplemented!` / `todo!` / `.unwrap()` / `.expect(..)`.

use std::collections::BTreeMap;
use std::path::Path;
use syn::visit::Visit;
use crate::util::*;

fn pat_variants(p: &syn::Pat, out: &mut Vec<String>) {
    match p {
        syn::Pat::Or(o) => o.cases.iter().for_each(|c| pat_variants(c, out)),
        syn::Pat::Struct(s) => out.push(s.path.segments.last().unwrap().ident.to_string()),
        syn::Pat::TupleStruct(s) => out.push(s.path.segments.last().unwrap().ident.to_string()),
        syn::Pat::Path(s) => out.push(s.path.segments.last().unwrap().ident.to_string()),
        syn::Pat::Wild(_) => out.push("_".into()),
        syn::Pat::Ident(_) => out.push("_".into()),
        syn::Pat::Paren(p) => pat_variants(&p.pat, out),
        syn::Pat::Reference(r) => pat_variants(&r.pat, out),
        _ => out.push(format!("?{}", compact(p))),
    }
}

fn enum_variants(file: &syn::File, name: &str) -> Vec<String> {
    for item in &file.items {
        if let syn::Item::Enum(e) = item {
            if e.ident == name {
                return e.variants.iter().map(|v| v.ident.to_string()).collect();
            }
        }
    }
    panic!("enum {name} not found");
}

/// Does the expression reach a panicking construct?
#[derive(Default)]
struct Panics(bool);

impl<'ast> Visit<'ast> for Panics {
    fn visit_macro(&mut self, m: &'ast syn::Macro) {
        let name = m.path.segments.last().map(|s| s.ident.to_string()).unwrap_or_default();
        if matches!(name.as_str(), "panic" | "unreachable" | "unimplemented" | "todo" | "assert" | "assert_eq" | "assert_ne") {
            self.0 = true;
        }
        syn::visit::visit_macro(self, m);
    }
    fn visit_expr_method_call(&mut self, c: &'ast syn::ExprMethodCall) {
        if c.method == "unwrap" || c.method == "expect" {
            self.0 = true;
        }
        syn::visit::visit_expr_method_call(self, c);
    }
}

fn panics(e: &syn::Expr) -> bool {
    let mut p = Panics::default();
    p.visit_expr(e);
    p.0
}

/// Number of panicking constructs (to see whether any lies outside the match arms).
#[derive(Default)]
struct PanicCount(usize);

impl<'ast> Visit<'ast> for PanicCount {
    fn visit_macro(&mut self, m: &'ast syn::Macro) {
        let name = m.path.segments.last().map(|s| s.ident.to_string()).unwrap_or_default();
        if matches!(name.as_str(), "panic" | "unreachable" | "unimplemented" | "todo" | "assert" | "assert_eq" | "assert_ne") {
            self.0 += 1;
        }
        syn::visit::visit_macro(self, m);
    }
    fn visit_expr_method_call(&mut self, c: &'ast syn::ExprMethodCall) {
        if c.method == "unwrap" || c.method == "expect" {
            self.0 += 1;
        }
        syn::visit::visit_expr_method_call(self, c);
    }
}

/// The first `match` whose scrutinee mentions the key state (`self.key_state`, `self` inside
/// `impl KeyState`).
struct KeyMatch<'a> {
    found: Option<&'a syn::ExprMatch>,
    on_self: bool,
}

impl<'ast> Visit<'ast> for KeyMatch<'ast> {
    fn visit_expr_match(&mut self, m: &'ast syn::ExprMatch) {
        if self.found.is_none() {
            let s = compact(&*m.expr);
            let hit = if self.on_self {
                s == "self" || s == "&self" || s == "&mutself" || s == "*self"
            } else {
                s.ends_with("self.key_state")
            };
            if hit {
                self.found = Some(m);
                return;
            }
        }
        syn::visit::visit_expr_match(self, m);
    }
}

/// Method names called on anything, collected in order.
#[derive(Default)]
struct Calls(Vec<String>);

impl<'ast> Visit<'ast> for Calls {
    fn visit_expr_method_call(&mut self, c: &'ast syn::ExprMethodCall) {
        syn::visit::visit_expr_method_call(self, c);
        self.0.push(c.method.to_string());
    }
}

/// `<recv>.get_mut(..).unwrap()` with `<recv>` = `self.resources` / `self.children`.
#[derive(Default)]
struct Unwraps {
    class: bool,
    child: bool,
    other: bool,
}

impl<'ast> Visit<'ast> for Unwraps {
    fn visit_expr_method_call(&mut self, c: &'ast syn::ExprMethodCall) {
        if c.method == "unwrap" || c.method == "expect" {
            let r = compact(&*c.receiver);
            if r.starts_with("self.resources.get_mut(") || r.starts_with("self.resources.get(") {
                self.class = true;
            } else if r.starts_with("self.children.get_mut(") || r.starts_with("self.children.get(") {
                self.child = true;
            } else {
                self.other = true;
            }
        }
        syn::visit::visit_expr_method_call(self, c);
    }
    fn visit_macro(&mut self, m: &'ast syn::Macro) {
        let name = m.path.segments.last().map(|s| s.ident.to_string()).unwrap_or_default();
        if matches!(name.as_str(), "panic" | "unreachable" | "unimplemented" | "todo") {
            self.other = true;
        }
    }
}

/// Variants of `KeyState` for which `method` (of `ty`) does not panic.
fn ok_variants(
    rc: &syn::File, keys: &syn::File, ty: &str, method: &str, all: &[String], depth: usize,
) -> Result<Vec<String>, String> {
    let file = if ty == "KeyState" { keys } else { rc };
    let Some(f) = find_method(file, ty, method) else {
        return Err(format!("{ty}::{method} not found"));
    };
    let mut km = KeyMatch { found: None, on_self: ty == "KeyState" };
    km.visit_block(&f.block);
    if let Some(m) = km.found {
        let mut ok: Vec<String> = vec![];
        let mut seen: Vec<String> = vec![];
        for arm in &m.arms {
            let mut vs = vec![];
            pat_variants(&arm.pat, &mut vs);
            let bad = panics(&arm.body);
            for v in vs {
                if v == "_" {
                    for a in all {
                        if !seen.contains(a) {
                            seen.push(a.clone());
                            if !bad { ok.push(a.clone()); }
                        }
                    }
                } else if v.starts_with('?') {
                    return Err(format!("{ty}::{method}: unrecognised pattern {v}"));
                } else if !seen.contains(&v) {
                    seen.push(v.clone());
                    if !bad { ok.push(v); }
                }
            }
        }
        // anything outside the match arms that panics makes every variant panic
        let mut whole = PanicCount::default();
        whole.visit_block(&f.block);
        let mut inside = PanicCount::default();
        for arm in &m.arms {
            inside.visit_expr(&arm.body);
        }
        if whole.0 > inside.0 {
            return Ok(vec![]);
        }
        let mut sorted: Vec<String> = all.iter().filter(|a| ok.contains(a)).cloned().collect();
        sorted.dedup();
        return Ok(sorted);
    }
    // no match on the key state: a delegation `self.key_state.<m>(..)`, or no dependence at all
    if ty == "ResourceClass" && depth == 0 {
        let mut calls = Calls::default();
        calls.visit_block(&f.block);
        let body = compact(&f.block);
        for c in &calls.0 {
            if body.contains(&format!("self.key_state.{c}(")) && find_method(keys, "KeyState", c).is_some() {
                return ok_variants(rc, keys, "KeyState", c, all, 1);
            }
        }
    }
    // the body itself must not panic
    let mut p = Panics::default();
    p.visit_block(&f.block);
    if p.0 { Ok(vec![]) } else { Ok(all.to_vec()) }
}

pub fn run(repo: &Path) -> String {
    let rc = parse_file(repo, "src/server/ca/rc.rs");
    let keys = parse_file(repo, "src/server/ca/keys.rs");
    let ca = parse_file(repo, "src/server/ca/certauth.rs");
    let events = parse_file(repo, "src/server/ca/events.rs");

    let variants = enum_variants(&keys, "KeyState");
    let ca_events = enum_variants(&events, "CertAuthEvent");

    // `fn apply` of `impl Aggregate for CertAuth`
    let mut apply: Option<&syn::ImplItemFn> = None;
    for item in &ca.items {
        if let syn::Item::Impl(imp) = item {
            if compact(&imp.self_ty) != "CertAuth" || imp.trait_.is_none() {
                continue;
            }
            for it in &imp.items {
                if let syn::ImplItem::Fn(f) = it {
                    if f.sig.ident == "apply" {
                        apply = Some(f);
                    }
                }
            }
        }
    }
    let apply = apply.expect("CertAuth::apply not found");
    let mut top: Option<&syn::ExprMatch> = None;
    for stmt in &apply.block.stmts {
        if let syn::Stmt::Expr(syn::Expr::Match(m), _) = stmt {
            if compact(&*m.expr) == "event" {
                top = Some(m);
            }
        }
    }
    let top = top.expect("`match event` not found in CertAuth::apply");

    struct Row { needs_class: bool, needs_child: bool, other_panic: bool, methods: Vec<String>, ok: Vec<String>, note: String }
    let mut rows: BTreeMap<String, Row> = BTreeMap::new();
    for arm in &top.arms {
        let mut vs = vec![];
        pat_variants(&arm.pat, &mut vs);
        let mut uw = Unwraps::default();
        uw.visit_expr(&arm.body);
        let mut calls = Calls::default();
        calls.visit_expr(&arm.body);
        let methods: Vec<String> = {
            let mut m: Vec<String> = vec![];
            for c in calls.0.iter().filter(|c| c.starts_with("apply_")) {
                if find_method(&rc, "ResourceClass", c).is_some() && !m.contains(c) {
                    m.push(c.clone());
                }
            }
            m
        };
        let mut ok: Vec<String> = variants.clone();
        let mut note = String::new();
        for m in &methods {
            match ok_variants(&rc, &keys, "ResourceClass", m, &variants, 0) {
                Ok(v) => ok.retain(|x| v.contains(x)),
                Err(e) => { ok.clear(); note = format!("UNTRANSLATED: {e}"); }
            }
        }
        for v in vs {
            rows.insert(v, Row {
                needs_class: uw.class, needs_child: uw.child, other_panic: uw.other,
                methods: methods.clone(), ok: ok.clone(), note: note.clone(),
            });
        }
    }

    let mut out = lean_header("src/server/ca/certauth.rs (CertAuth::apply), src/server/ca/rc.rs (ResourceClass::apply_*), src/server/ca/keys.rs (KeyState)");
    out.push_str("namespace KM.Generated.ApplyDomain\n\n");
    out.push_str("/-- `enum KeyState` (keys.rs). -/\ninductive KsVariant where\n");
    for v in &variants {
        out.push_str(&format!("  | {v}\n"));
    }
    out.push_str("deriving DecidableEq, Repr\n\n");
    out.push_str("/-- `enum CertAuthEvent` (events.rs). -/\ninductive ApplyEvent where\n");
    for e in &ca_events {
        out.push_str(&format!("  | {e}\n"));
    }
    out.push_str("deriving DecidableEq, Repr\n\n");
    out.push_str("/-- What the arm of `CertAuth::apply` for an event needs in order not to panic. -/\nstructure Dom where\n");
    out.push_str("  /-- `self.resources.get_mut(..).unwrap()` -/\n  needsClass : Bool\n");
    out.push_str("  /-- `self.children.get_mut(..).unwrap()` -/\n  needsChild : Bool\n");
    out.push_str("  /-- another `unwrap`/`panic!` directly in the arm -/\n  otherPanic : Bool\n");
    out.push_str("  /-- `ResourceClass::apply_*` methods called -/\n  methods : List String\n");
    out.push_str("  /-- key-state variants whose arm in those methods does not panic -/\n  okVariants : List KsVariant\n");
    out.push_str("deriving DecidableEq, Repr\n\n");
    out.push_str("def dom : ApplyEvent → Dom\n");
    let default = rows.get("_");
    for e in &ca_events {
        let row = rows.get(e).or(default);
        match row {
            Some(r) => {
                let ms = r.methods.iter().map(|m| lean_str(m)).collect::<Vec<_>>().join(", ");
                let ok = r.ok.iter().map(|v| format!(".{v}")).collect::<Vec<_>>().join(", ");
                let note = if r.note.is_empty() { String::new() } else { format!(" /- {} -/", r.note) };
                out.push_str(&format!(
                    "  | .{e} => ⟨{}, {}, {}, [{ms}], [{ok}]⟩{note}\n",
                    r.needs_class, r.needs_child, r.other_panic
                ));
            }
            None => {
                out.push_str(&format!("  | .{e} => ⟨false, false, true, [], []⟩ /- UNTRANSLATED: no arm -/\n"));
            }
        }
    }
    out.push_str("\nend KM.Generated.ApplyDomain\n");
    out
}
