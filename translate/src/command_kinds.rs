//! C06 table `commandKinds`: what krill's event-sourced aggregates write to storage, read off the
//! source.
//!
//! The aggregates are found, not listed: every `impl … Aggregate for X` (associated types
//! `StorableCommandDetails`, `Event`, `InitEvent`) and every `impl … WalSupport for X` (associated
//! type `Change` – a write-ahead log stores change sets, not commands) outside tests, `src/verif`,
//! the CLI binaries and the `upgrades` modules.  For each of them the table has
//!
//! * `commandKinds` – one row per variant of the storable command enum (for a WAL aggregate: of the
//!   change enum), with the variant's fields.  A field whose type is a struct of krill's own is
//!   followed by that struct's fields under a dotted path (`0.tal_https`, `updates.added`), down to
//!   `FLATTEN_DEPTH` path components and never through `Option`/collections/enums: these are the
//!   places where the stored form of one command kind has distinct shapes;
//! * `eventKinds` – the same for the event enum and the init event;
//! * `storedTypes` – every struct and enum of krill's own that is reachable from those enums through
//!   field types (by name; rpki-rs and other third-party types are leaves), with all fields: the
//!   domain of the serde-attribute review.
//!
//! Per field: the type text (white space removed), the shape class (`opt` = `Option<…>`, `coll` =
//! `Vec`/map/set – also through krill's own newtype structs –, `plain` otherwise) and the serde
//! attributes verbatim, one entry per item of every `#[serde(…)]` on the field
//! (`skip_serializing_if="Vec::is_empty"`, `default`, `rename="x"`, `flatten`, …).  The container
//! attributes (`tag="type"`, `rename_all="snake_case"`, `transparent`) are kept per enum/struct.

use std::collections::{BTreeMap, BTreeSet};
use std::path::Path;

use crate::util::*;

/// Path components below which a variant's field list does not descend any further.
const FLATTEN_DEPTH: usize = 4;

const COLLECTIONS: &[&str] = &["Vec", "VecDeque", "HashMap", "BTreeMap", "HashSet", "BTreeSet"];

fn out_of_scope(rel: &str) -> bool {
    let base = rel.rsplit('/').next().unwrap_or(rel);
    rel.starts_with("src/verif/")
        || rel.starts_with("src/bin/")
        || rel.starts_with("src/cli/")
        || rel.starts_with("src/upgrades/")
        || rel.contains("/upgrades/")
        || rel == "src/commons/test.rs"
        || base.starts_with("test")
}

fn is_test_cfg(attrs: &[syn::Attribute]) -> bool {
    attrs.iter().any(|a| {
        if !a.path().is_ident("cfg") {
            return false;
        }
        let c = compact(&a.meta);
        c == "cfg(test)" || c.contains("(test,") || c.contains(",test,") || c.contains(",test)")
            || (c.contains("nlnetlabs_krill_verif") && !c.contains("not(nlnetlabs_krill_verif"))
    })
}

fn walk(dir: &Path, root: &Path, out: &mut Vec<String>) {
    let mut entries: Vec<_> = std::fs::read_dir(dir).expect("read_dir").filter_map(|e| e.ok()).collect();
    entries.sort_by_key(|e| e.path());
    for e in entries {
        let p = e.path();
        if p.is_dir() {
            walk(&p, root, out);
        } else if p.extension().map(|x| x == "rs").unwrap_or(false) {
            out.push(p.strip_prefix(root).unwrap().to_string_lossy().to_string());
        }
    }
}

#[derive(Clone)]
enum Def {
    Struct(syn::ItemStruct),
    Enum(syn::ItemEnum),
    /// `type X = Y<…>;`
    Alias(syn::ItemType),
}

#[derive(Clone)]
struct TypeDef {
    file: String,
    def: Def,
}

struct AggSpec {
    name: String,
    file: String,
    /// (role, type name)
    types: Vec<(&'static str, String)>,
}

#[derive(Default)]
struct Index {
    types: BTreeMap<String, Vec<TypeDef>>,
    aggs: Vec<AggSpec>,
    /// file -> identifiers imported by `use` with the path they come from
    uses: BTreeMap<String, Vec<(String, String)>>,
}

fn last_ident(t: &syn::Type) -> Option<String> {
    match t {
        syn::Type::Path(p) => p.path.segments.last().map(|s| s.ident.to_string()),
        syn::Type::Reference(r) => last_ident(&r.elem),
        syn::Type::Paren(p) => last_ident(&p.elem),
        _ => None,
    }
}

fn collect_use(tree: &syn::UseTree, prefix: &str, out: &mut Vec<(String, String)>) {
    match tree {
        syn::UseTree::Path(p) => collect_use(&p.tree, &format!("{prefix}{}::", p.ident), out),
        syn::UseTree::Name(n) => out.push((n.ident.to_string(), format!("{prefix}{}", n.ident))),
        syn::UseTree::Rename(r) => out.push((r.rename.to_string(), format!("{prefix}{}", r.ident))),
        syn::UseTree::Group(g) => {
            for t in &g.items {
                collect_use(t, prefix, out);
            }
        }
        syn::UseTree::Glob(_) => {}
    }
}

fn index_items(rel: &str, items: &[syn::Item], idx: &mut Index) {
    for it in items {
        match it {
            syn::Item::Struct(s) if !is_test_cfg(&s.attrs) => {
                idx.types.entry(s.ident.to_string()).or_default().push(TypeDef { file: rel.to_string(), def: Def::Struct(s.clone()) });
            }
            syn::Item::Enum(e) if !is_test_cfg(&e.attrs) => {
                idx.types.entry(e.ident.to_string()).or_default().push(TypeDef { file: rel.to_string(), def: Def::Enum(e.clone()) });
            }
            syn::Item::Type(t) if !is_test_cfg(&t.attrs) => {
                idx.types.entry(t.ident.to_string()).or_default().push(TypeDef { file: rel.to_string(), def: Def::Alias(t.clone()) });
            }
            syn::Item::Use(u) => {
                let mut v = vec![];
                collect_use(&u.tree, "", &mut v);
                idx.uses.entry(rel.to_string()).or_default().extend(v);
            }
            syn::Item::Mod(m) if !is_test_cfg(&m.attrs) && m.ident != "tests" && m.ident != "test" => {
                if let Some((_, items)) = &m.content {
                    index_items(rel, items, idx);
                }
            }
            syn::Item::Impl(imp) if !is_test_cfg(&imp.attrs) => {
                let Some((_, tr, _)) = &imp.trait_ else { continue };
                let tname = tr.segments.last().map(|s| s.ident.to_string()).unwrap_or_default();
                if tname != "Aggregate" && tname != "WalSupport" {
                    continue;
                }
                let Some(agg) = last_ident(&imp.self_ty) else { continue };
                let mut types = vec![];
                for ii in &imp.items {
                    if let syn::ImplItem::Type(t) = ii {
                        let role = match (tname.as_str(), t.ident.to_string().as_str()) {
                            ("Aggregate", "StorableCommandDetails") => "command",
                            ("Aggregate", "Event") => "event",
                            ("Aggregate", "InitEvent") => "init_event",
                            ("WalSupport", "Change") => "change",
                            _ => continue,
                        };
                        if let Some(n) = last_ident(&t.ty) {
                            types.push((role, n));
                        }
                    }
                }
                idx.aggs.push(AggSpec { name: agg, file: rel.to_string(), types });
            }
            _ => {}
        }
    }
}

/// `src/server/ca/roa.rs` -> `server::ca::roa`
fn module_of(file: &str) -> String {
    let p = file.strip_prefix("src/").unwrap_or(file).strip_suffix(".rs").unwrap_or(file);
    let p = p.strip_suffix("/mod").unwrap_or(p);
    p.replace('/', "::")
}

/// The path segments of a type (`uri::Https` -> [uri, Https]); `None` for non-path types.
fn type_path(t: &syn::Type) -> Option<Vec<String>> {
    match t {
        syn::Type::Path(p) => Some(p.path.segments.iter().map(|s| s.ident.to_string()).collect()),
        syn::Type::Reference(r) => type_path(&r.elem),
        syn::Type::Paren(p) => type_path(&p.elem),
        _ => None,
    }
}

fn is_local_root(seg: &str) -> bool {
    matches!(seg, "crate" | "super" | "self")
}

impl Index {
    /// The definition in krill's own source a type path written in file `from` refers to.
    ///
    /// * a definition in the same file wins (single-segment paths);
    /// * otherwise the `use` of `from` that brings the first segment into scope decides: a path
    ///   that does not start at `crate`/`super`/`self` is a third-party type (a leaf), a local one
    ///   selects the candidate whose module matches;
    /// * without such a `use` (glob imports, preludes) the only definition of that name, if any.
    ///
    /// Returns the definition and whether the choice was a guess among several.
    fn resolve_path(&self, path: &[String], from: &str) -> Option<(&TypeDef, bool)> {
        let name = path.last()?;
        let c = self.types.get(name)?;
        if path.len() == 1 {
            if let Some(d) = c.iter().find(|d| d.file == from) {
                return Some((d, false));
            }
        }
        let first = &path[0];
        let mut full: Option<Vec<String>> = None;
        if is_local_root(first) {
            full = Some(path.to_vec());
        } else if let Some((_, p)) = self.uses.get(from).and_then(|u| u.iter().find(|(id, _)| id == first)) {
            let mut segs: Vec<String> = p.split("::").map(|s| s.to_string()).collect();
            if !segs.first().map(|s| is_local_root(s)).unwrap_or(false) {
                return None; // imported from another crate
            }
            segs.extend(path[1..].iter().cloned());
            full = Some(segs);
        } else if path.len() > 1 {
            // `rpki::…`, `std::…`, or a module in scope we cannot see: only a unique name counts
            if matches!(first.as_str(), "rpki" | "std" | "serde_json" | "chrono" | "bytes" | "url" | "uuid") {
                return None;
            }
        }
        if let Some(full) = full {
            let tail: Vec<&str> = full.iter().map(|s| s.as_str()).filter(|s| !is_local_root(s)).collect();
            let tail = &tail[..tail.len().saturating_sub(1)];
            if !tail.is_empty() {
                let want = tail.join("::");
                if let Some(d) = c.iter().find(|d| {
                    let m = module_of(&d.file);
                    m == want || m.ends_with(&format!("::{want}")) || want.ends_with(&m)
                }) {
                    return Some((d, false));
                }
                // re-exported from a parent module (`crate::api::ca::X` defined in api/ca/…)
                if let Some(d) = c.iter().find(|d| module_of(&d.file).contains(tail.last().copied().unwrap_or(""))) {
                    return Some((d, c.len() > 1));
                }
            }
        }
        Some((c.first()?, c.len() > 1))
    }

    /// Like `resolve_path`, following `type X = Y<…>` aliases of krill's own.
    fn resolve_ty(&self, t: &syn::Type, from: &str) -> Option<(&TypeDef, bool)> {
        let mut r = self.resolve_path(&type_path(t)?, from)?;
        for _ in 0..4 {
            let Def::Alias(a) = &r.0.def else { break };
            r = self.resolve_path(&type_path(&a.ty)?, &r.0.file)?;
        }
        Some(r)
    }

    fn resolve(&self, name: &str, from: &str) -> Option<&TypeDef> {
        self.resolve_path(&[name.to_string()], from).map(|x| x.0)
    }
}

/// One item per entry of every `#[serde(…)]` attribute, white space removed.
fn serde_attrs(attrs: &[syn::Attribute]) -> Vec<String> {
    let mut out = vec![];
    for a in attrs {
        if !a.path().is_ident("serde") {
            continue;
        }
        let r = a.parse_nested_meta(|meta| {
            let key = compact(&meta.path);
            if meta.input.peek(syn::Token![=]) {
                let v: syn::Expr = meta.value()?.parse()?;
                out.push(format!("{key}={}", compact(&v)));
            } else if meta.input.peek(syn::token::Paren) {
                let content;
                syn::parenthesized!(content in meta.input);
                let ts: proc_macro2::TokenStream = content.parse()?;
                out.push(format!("{key}({})", ts.to_string().split_whitespace().collect::<Vec<_>>().join("")));
            } else {
                out.push(key);
            }
            Ok(())
        });
        if r.is_err() {
            out.push(format!("UNPARSED:{}", compact(&a.meta)));
        }
    }
    out
}

/// Every type path (generic arguments included) in a type.
fn type_paths(t: &syn::Type, out: &mut Vec<Vec<String>>) {
    struct V<'a>(&'a mut Vec<Vec<String>>);
    impl<'ast> syn::visit::Visit<'ast> for V<'_> {
        fn visit_path(&mut self, p: &'ast syn::Path) {
            self.0.push(p.segments.iter().map(|s| s.ident.to_string()).collect());
            syn::visit::visit_path(self, p);
        }
    }
    syn::visit::Visit::visit_type(&mut V(out), t);
}

fn has_attr(attrs: &[String], key: &str) -> bool {
    attrs.iter().any(|a| a == key || a.starts_with(&format!("{key}=")))
}

struct Ctx<'a> {
    idx: &'a Index,
    notes: Vec<String>,
}

impl Ctx<'_> {
    /// opt / coll / plain; krill's own single-field tuple structs and `transparent` structs count as
    /// what they wrap (serde writes them as the inner value).
    fn shape(&mut self, t: &syn::Type, from: &str, depth: usize) -> &'static str {
        let Some(id) = last_ident(t) else {
            return "plain";
        };
        if id == "Option" {
            return "opt";
        }
        if COLLECTIONS.contains(&id.as_str()) {
            return "coll";
        }
        if id == "Box" || id == "Arc" {
            if let syn::Type::Path(p) = t {
                if let Some(syn::PathArguments::AngleBracketed(a)) = p.path.segments.last().map(|s| &s.arguments) {
                    if let Some(syn::GenericArgument::Type(inner)) = a.args.first() {
                        return self.shape(inner, from, depth);
                    }
                }
            }
        }
        if depth > 4 {
            return "plain";
        }
        if let Some((d, _)) = self.idx.resolve_ty(t, from) {
            if let Def::Struct(s) = &d.def {
                let file = d.file.clone();
                match &s.fields {
                    syn::Fields::Unnamed(u) if u.unnamed.len() == 1 => {
                        return self.shape(&u.unnamed[0].ty, &file, depth + 1);
                    }
                    syn::Fields::Named(n) if n.named.len() == 1 && has_attr(&serde_attrs(&s.attrs), "transparent") => {
                        return self.shape(&n.named[0].ty, &file, depth + 1);
                    }
                    _ => {}
                }
            }
        }
        "plain"
    }

    fn field_row(&mut self, path: &str, f: &syn::Field, from: &str) -> String {
        let attrs = serde_attrs(&f.attrs);
        format!(
            "{{ name := {}, ty := {}, shape := {}, attrs := [{}] }}",
            lean_str(path),
            lean_str(&compact(&f.ty)),
            lean_str(self.shape(&f.ty, from, 0)),
            attrs.iter().map(|a| lean_str(a)).collect::<Vec<_>>().join(", ")
        )
    }

    /// The fields of a variant / struct with krill's own structs flattened under dotted paths.
    fn flat_fields(&mut self, fields: &syn::Fields, from: &str, prefix: &str, depth: usize, out: &mut Vec<String>) {
        let list: Vec<(String, &syn::Field)> = match fields {
            syn::Fields::Named(n) => n.named.iter().map(|f| (f.ident.as_ref().unwrap().to_string(), f)).collect(),
            syn::Fields::Unnamed(u) => u.unnamed.iter().enumerate().map(|(i, f)| (i.to_string(), f)).collect(),
            syn::Fields::Unit => vec![],
        };
        for (name, f) in list {
            let path = if prefix.is_empty() { name } else { format!("{prefix}.{name}") };
            out.push(self.field_row(&path, f, from));
            if depth + 1 >= FLATTEN_DEPTH {
                continue;
            }
            // descend into a struct of krill's own that is written as a JSON object
            let Some(id) = last_ident(&f.ty) else { continue };
            if id == "Option" || COLLECTIONS.contains(&id.as_str()) {
                continue;
            }
            let Some((d, guess)) = self.idx.resolve_ty(&f.ty, from) else { continue };
            if guess {
                self.notes.push(format!("type name {id} used in {from} has several definitions; took {}", d.file));
            }
            if let Def::Struct(s) = &d.def {
                if let syn::Fields::Named(_) = &s.fields {
                    let file = d.file.clone();
                    let sf = s.fields.clone();
                    self.flat_fields(&sf, &file, &path, depth + 1, out);
                }
            }
        }
    }
}

pub fn run(repo: &Path) -> String {
    let mut files = vec![];
    walk(&repo.join("src"), repo, &mut files);
    files.retain(|f| !out_of_scope(f));
    let mut idx = Index::default();
    for rel in &files {
        let file = parse_file(repo, rel);
        index_items(rel, &file.items, &mut idx);
    }
    idx.aggs.sort_by(|a, b| (a.file.as_str(), a.name.as_str()).cmp(&(b.file.as_str(), b.name.as_str())));
    let mut cx = Ctx { idx: &idx, notes: vec![] };

    let mut cmd_rows: Vec<String> = vec![];
    let mut ev_rows: Vec<String> = vec![];
    let mut summary: Vec<String> = vec![];
    // closure of krill's own types reachable from the stored enums
    let mut todo: Vec<(Vec<String>, String)> = vec![];
    for agg in &idx.aggs {
        for (role, tname) in &agg.types {
            let Some(d) = idx.resolve(tname, &agg.file) else {
                cx.notes.push(format!("{}: type {tname} ({role}) not found", agg.name));
                continue;
            };
            todo.push((vec![tname.clone()], agg.file.clone()));
            let rows = if *role == "command" || *role == "change" { &mut cmd_rows } else { &mut ev_rows };
            let before = rows.len();
            match &d.def {
                Def::Alias(_) => cx.notes.push(format!("{}: {tname} is a type alias", agg.name)),
                Def::Enum(e) => {
                    let eattrs = serde_attrs(&e.attrs);
                    for v in &e.variants {
                        let mut fs = vec![];
                        cx.flat_fields(&v.fields, &d.file, "", 0, &mut fs);
                        let vattrs = serde_attrs(&v.attrs);
                        let form = match &v.fields {
                            syn::Fields::Named(_) => "struct",
                            syn::Fields::Unnamed(u) if u.unnamed.len() == 1 => "newtype",
                            syn::Fields::Unnamed(_) => "tuple",
                            syn::Fields::Unit => "unit",
                        };
                        rows.push(format!(
                            "  {{ agg := {}, role := {}, enumName := {}, enumAttrs := [{}], variant := {}, form := {}, variantAttrs := [{}],\n    fields := [{}] }}",
                            lean_str(&agg.name), lean_str(role), lean_str(tname),
                            eattrs.iter().map(|a| lean_str(a)).collect::<Vec<_>>().join(", "),
                            lean_str(&v.ident.to_string()), lean_str(form),
                            vattrs.iter().map(|a| lean_str(a)).collect::<Vec<_>>().join(", "),
                            if fs.is_empty() { String::new() } else { format!("\n      {}", fs.join(",\n      ")) }
                        ));
                    }
                }
                Def::Struct(s) => {
                    // an init event: one kind, named after the struct
                    let mut fs = vec![];
                    cx.flat_fields(&s.fields, &d.file, "", 0, &mut fs);
                    rows.push(format!(
                        "  {{ agg := {}, role := {}, enumName := {}, enumAttrs := [{}], variant := {}, form := \"struct\", variantAttrs := [],\n    fields := [{}] }}",
                        lean_str(&agg.name), lean_str(role), lean_str(tname),
                        serde_attrs(&s.attrs).iter().map(|a| lean_str(a)).collect::<Vec<_>>().join(", "),
                        lean_str(tname),
                        if fs.is_empty() { String::new() } else { format!("\n      {}", fs.join(",\n      ")) }
                    ));
                }
            }
            summary.push(format!("{} {role} {tname} ({}): {} kinds", agg.name, d.file, rows.len() - before));
        }
    }

    // storedTypes: closure by type name
    let mut seen: BTreeSet<(String, String)> = BTreeSet::new();
    let mut stored: BTreeMap<(String, String), String> = BTreeMap::new();
    let mut n_fields = 0usize;
    let mut n_attr_fields = 0usize;
    while let Some((path, from)) = todo.pop() {
        let Some((d, guess)) = idx.resolve_path(&path, &from) else { continue };
        let name = path.last().cloned().unwrap_or_default();
        if guess {
            cx.notes.push(format!("type name {name} used in {from} has several definitions; took {}", d.file));
        }
        let key = (d.file.clone(), name.clone());
        if !seen.insert(key.clone()) {
            continue;
        }
        let file = d.file.clone();
        let mut rows = vec![];
        if let Def::Alias(a) = &d.def {
            let mut paths = vec![];
            type_paths(&a.ty, &mut paths);
            for p in paths {
                if p.last().map(|n| idx.types.contains_key(n)).unwrap_or(false) {
                    todo.push((p, file.clone()));
                }
            }
            stored.insert(key, format!(
                "  {{ name := {}, file := {}, kind := {}, attrs := [],\n    fields := [] }}",
                lean_str(&name), lean_str(&file), lean_str(&format!("alias={}", compact(&a.ty)))
            ));
            continue;
        }
        let (kind, cattrs, all_fields): (&str, Vec<String>, Vec<(String, syn::Field)>) = match &d.def {
            Def::Struct(s) => {
                let fs = match &s.fields {
                    syn::Fields::Named(n) => n.named.iter().map(|f| (f.ident.as_ref().unwrap().to_string(), f.clone())).collect(),
                    syn::Fields::Unnamed(u) => u.unnamed.iter().enumerate().map(|(i, f)| (i.to_string(), f.clone())).collect(),
                    syn::Fields::Unit => vec![],
                };
                ("struct", serde_attrs(&s.attrs), fs)
            }
            Def::Enum(e) => {
                let mut fs = vec![];
                for v in &e.variants {
                    match &v.fields {
                        syn::Fields::Named(n) => {
                            for f in &n.named {
                                fs.push((format!("{}.{}", v.ident, f.ident.as_ref().unwrap()), f.clone()));
                            }
                        }
                        syn::Fields::Unnamed(u) => {
                            for (i, f) in u.unnamed.iter().enumerate() {
                                fs.push((format!("{}.{}", v.ident, i), f.clone()));
                            }
                        }
                        syn::Fields::Unit => {}
                    }
                }
                ("enum", serde_attrs(&e.attrs), fs)
            }
            Def::Alias(_) => unreachable!(),
        };
        for (path, f) in &all_fields {
            rows.push(cx.field_row(path, f, &file));
            n_fields += 1;
            if !serde_attrs(&f.attrs).is_empty() {
                n_attr_fields += 1;
            }
            let mut paths = vec![];
            type_paths(&f.ty, &mut paths);
            for p in paths {
                if p.last().map(|n| idx.types.contains_key(n)).unwrap_or(false) {
                    todo.push((p, file.clone()));
                }
            }
        }
        stored.insert(key, format!(
            "  {{ name := {}, file := {}, kind := {}, attrs := [{}],\n    fields := [{}] }}",
            lean_str(&name), lean_str(&file), lean_str(kind),
            cattrs.iter().map(|a| lean_str(a)).collect::<Vec<_>>().join(", "),
            if rows.is_empty() { String::new() } else { format!("\n      {}", rows.join(",\n      ")) }
        ));
    }

    let mut out = lean_header(
        "src/**/*.rs (impl Aggregate / impl WalSupport: storable command, change and event enums with their fields and serde attributes)",
    );
    out.push_str("namespace KM.Gen.CommandKinds\n\n");
    out.push_str("structure Field where\n  name : String\n  ty : String\n  /-- `opt` | `coll` | `plain` -/\n  shape : String\n  /-- the items of the field's `#[serde(…)]` attributes, verbatim without white space -/\n  attrs : List String\n  deriving Repr, BEq, DecidableEq\n\n");
    out.push_str("structure Kind where\n  agg : String\n  /-- `command` | `change` (write-ahead log) | `event` | `init_event` -/\n  role : String\n  enumName : String\n  enumAttrs : List String\n  variant : String\n  /-- `unit` | `newtype` | `tuple` | `struct` -/\n  form : String\n  variantAttrs : List String\n  fields : List Field\n  deriving Repr, BEq, DecidableEq\n\n");
    out.push_str("structure StoredType where\n  name : String\n  file : String\n  kind : String\n  attrs : List String\n  fields : List Field\n  deriving Repr, BEq, DecidableEq\n\n");
    out.push_str("/-- What is written as the `details` of a stored command (for a write-ahead log: as one change of a change set). -/\n");
    out.push_str(&format!("def commandKinds : List Kind := [\n{}\n]\n\n", cmd_rows.join(",\n")));
    out.push_str("/-- What is written as an event (and as the init event) of a stored command. -/\n");
    out.push_str(&format!("def eventKinds : List Kind := [\n{}\n]\n\n", ev_rows.join(",\n")));
    out.push_str("/-- Every struct / enum of krill's own reachable from the above through field types, by (file, name). -/\n");
    out.push_str(&format!("def storedTypes : List StoredType := [\n{}\n]\n\n", stored.values().cloned().collect::<Vec<_>>().join(",\n")));
    for s in &summary {
        out.push_str(&format!("-- {s}\n"));
    }
    out.push_str(&format!(
        "-- total: {} aggregates, {} command/change kinds, {} event kinds, {} stored types with {} fields ({} with serde attributes)\n",
        idx.aggs.len(), cmd_rows.len(), ev_rows.len(), stored.len(), n_fields, n_attr_fields
    ));
    cx.notes.sort();
    cx.notes.dedup();
    for n in &cx.notes {
        out.push_str(&format!("-- note: {n}\n"));
    }
    out.push_str("\nend KM.Gen.CommandKinds\n");

    out
}
