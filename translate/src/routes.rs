//! `Generated/Routes.lean` (+ `Routes.json` next to it for the harness): the HTTP
//! dispatch tree of `src/daemon/http/dispatch/*.rs` as data.
//!
//! The dispatch functions are executed symbolically, once per request method
//! (GET, POST, DELETE and OTHER = any other method), starting at
//! `root::dispatch_request`.  The walker understands the idioms the dispatch code
//! is written in (`match path.next()`, `path.parse_opt_next()?`,
//! `path.check_exhausted()?`, `request.check_get()?`, `match *request.method()`,
//! `request.check_permission(..)?`, `request.proceed_permitted(..)?`,
//! `request.proceed_unchecked()`, `request.proceed_raw()`, calls of other
//! handlers with `request` as first argument).  Every leaf becomes one row: the
//! path pattern, the method, the permission gates passed *in source order*
//! before the row's end, how it ends (proceeds to the server object / answers
//! 405 / answers 404 / answers without touching the server), the server
//! operations mentioned after the proceed with the origin of their first
//! argument, and listing filters (`auth.has_permission(..)`).
//!
//! Anything that touches `request` or `path` in a way the walker does not know
//! ends the row with `End.unknown`, which makes the theorems over the table
//! fail: nothing is silently skipped.

use std::collections::{BTreeMap, BTreeSet, HashMap};
use std::path::Path;
use syn::visit::Visit;
use crate::util::*;

const METHODS: [&str; 4] = ["GET", "POST", "DELETE", "OTHER"];

#[derive(Clone, Debug, PartialEq)]
enum Seg {
    Lit(String),
    Param(String),
    Opt(String),
    Rest,
    /// any literal segment not matched by the sibling arms
    Bogus,
}

#[derive(Clone, Debug, PartialEq)]
enum Origin {
    Seg(usize),
    Listed,
    NextSeg,
}

#[derive(Clone, Debug, PartialEq)]
enum Res {
    None,
    Seg(usize),
    Listed,
    Unknown(String),
}

#[derive(Clone, Debug, PartialEq)]
enum Target {
    Seg(usize),
    TaHandle,
    TestbedCa,
    Listed,
    Other,
}

#[derive(Clone, Debug, PartialEq)]
enum End {
    Permitted,
    Unchecked,
    Raw,
    /// answers without ever getting at the server object
    Static,
    MethodNotAllowed,
    NotFound,
    Unknown(String),
}

#[derive(Clone, Debug)]
struct OpCall {
    name: String,
    target: Target,
    /// "auth" (auth.into_actor()), "anonymous" (Actor::anonymous()), "none"
    actor: &'static str,
}

#[derive(Clone, Debug)]
struct Leaf {
    pattern: Vec<Seg>,
    method: &'static str,
    gates: Vec<(String, Res)>,
    end: End,
    ops: Vec<OpCall>,
    filter: Option<(String, Res)>,
    testbed_only: bool,
    handler: String,
    stripped: bool,
}

#[derive(Clone)]
struct State {
    module: String,
    /// nested inline modules (e.g. `multi_user` in auth.rs)
    inner: Vec<String>,
    pattern: Vec<Seg>,
    exhausted: bool,
    vars: HashMap<String, Origin>,
    gates: Vec<(String, Res)>,
    testbed_only: bool,
    stripped: bool,
    handler: String,
    depth: usize,
}

struct Ctx {
    files: BTreeMap<String, syn::File>,
    perms: Vec<String>,
}

fn strip(e: &syn::Expr) -> &syn::Expr {
    match e {
        syn::Expr::Try(t) => strip(&t.expr),
        syn::Expr::Await(a) => strip(&a.base),
        syn::Expr::Paren(p) => strip(&p.expr),
        syn::Expr::Return(r) => match &r.expr {
            Some(x) => strip(x),
            None => e,
        },
        syn::Expr::Call(c) if compact(&c.func) == "Ok" && c.args.len() == 1 => strip(&c.args[0]),
        syn::Expr::Block(b) if b.block.stmts.len() == 1 && b.label.is_none() => match &b.block.stmts[0] {
            syn::Stmt::Expr(x, None) => strip(x),
            _ => e,
        },
        _ => e,
    }
}

/// The first method call on the plain identifier `recv` inside `e`: (method, args).
fn find_recv_call<'a>(e: &'a syn::Expr, recv: &str) -> Option<(String, Vec<&'a syn::Expr>)> {
    struct V<'a, 'r> {
        recv: &'r str,
        found: Option<(String, Vec<&'a syn::Expr>)>,
    }
    impl<'a, 'r> Visit<'a> for V<'a, 'r> {
        fn visit_expr_method_call(&mut self, m: &'a syn::ExprMethodCall) {
            if self.found.is_none() {
                let r = compact(&m.receiver);
                if r == self.recv || r == format!("*{}", self.recv) {
                    self.found = Some((m.method.to_string(), m.args.iter().collect()));
                    return;
                }
            }
            syn::visit::visit_expr_method_call(self, m);
        }
    }
    let mut v = V { recv, found: None };
    v.visit_expr(e);
    v.found
}

fn mentions_ident(e: &syn::Expr, name: &str) -> bool {
    struct V<'r>(&'r str, bool);
    impl<'a, 'r> Visit<'a> for V<'r> {
        fn visit_ident(&mut self, i: &'a proc_macro2::Ident) {
            if i == self.0 {
                self.1 = true;
            }
        }
    }
    let mut v = V(name, false);
    v.visit_expr(e);
    v.1
}

fn is_not_found(e: &syn::Expr) -> bool {
    compact(strip(e)) == "HttpResponse::not_found()"
}

fn is_method_not_allowed(e: &syn::Expr) -> bool {
    compact(strip(e)) == "HttpResponse::method_not_allowed()"
}

fn pat_ident(p: &syn::Pat) -> Option<String> {
    match p {
        syn::Pat::Ident(i) => Some(i.ident.to_string()),
        syn::Pat::Type(t) => pat_ident(&t.pat),
        _ => None,
    }
}

fn pat_idents(p: &syn::Pat, out: &mut Vec<String>) {
    struct V<'o>(&'o mut Vec<String>);
    impl<'a, 'o> Visit<'a> for V<'o> {
        fn visit_pat_ident(&mut self, i: &'a syn::PatIdent) {
            self.0.push(i.ident.to_string());
        }
    }
    V(out).visit_pat(p);
}

/// `Some("lit")` patterns (possibly or-ed); None if the pattern is of another form.
fn lit_pats(p: &syn::Pat) -> Option<Vec<String>> {
    match p {
        syn::Pat::Or(o) => {
            let mut all = Vec::new();
            for c in &o.cases {
                all.extend(lit_pats(c)?);
            }
            Some(all)
        }
        syn::Pat::TupleStruct(ts) if compact(&ts.path) == "Some" && ts.elems.len() == 1 => match &ts.elems[0] {
            syn::Pat::Lit(l) => match &l.lit {
                syn::Lit::Str(s) => Some(vec![s.value()]),
                _ => None,
            },
            _ => None,
        },
        _ => None,
    }
}

fn some_ident(p: &syn::Pat) -> Option<String> {
    match p {
        syn::Pat::TupleStruct(ts) if compact(&ts.path) == "Some" && ts.elems.len() == 1 => pat_ident(&ts.elems[0]),
        _ => None,
    }
}

impl Ctx {
    fn find_fn<'a>(&'a self, module: &str, inner: &[String], name: &str) -> Option<&'a syn::ItemFn> {
        let file = self.files.get(module)?;
        let mut items: &Vec<syn::Item> = &file.items;
        for m in inner {
            let mut next = None;
            for it in items {
                if let syn::Item::Mod(md) = it {
                    if md.ident == m.as_str() {
                        next = md.content.as_ref().map(|c| &c.1);
                    }
                }
            }
            items = next?;
        }
        items.iter().find_map(|i| match i {
            syn::Item::Fn(f) if f.sig.ident == name => Some(f),
            _ => None,
        })
    }

    fn permission(&self, e: &syn::Expr) -> Option<String> {
        let c = compact(e);
        let n = c.strip_prefix("Permission::")?;
        if self.perms.iter().any(|p| p == n) {
            Some(n.to_string())
        } else {
            None
        }
    }

    fn resource(&self, e: &syn::Expr, vars: &HashMap<String, Origin>, listed: &BTreeSet<String>) -> Res {
        let c = compact(e);
        if c == "None" {
            return Res::None;
        }
        if let Some(v) = c.strip_prefix("Some(&").and_then(|r| r.strip_suffix(')')) {
            if listed.contains(v) {
                return Res::Listed;
            }
            return match vars.get(v) {
                Some(Origin::Seg(i)) => Res::Seg(*i),
                Some(Origin::Listed) => Res::Listed,
                _ => Res::Unknown(c),
            };
        }
        Res::Unknown(c)
    }

    fn leaf(&self, st: &State, method: &'static str, end: End) -> Leaf {
        let mut pattern = st.pattern.clone();
        if !st.exhausted {
            pattern.push(Seg::Rest);
        }
        Leaf {
            pattern,
            method,
            gates: st.gates.clone(),
            end,
            ops: Vec::new(),
            filter: None,
            testbed_only: st.testbed_only,
            handler: format!("{}::{}", st.module, st.handler),
            stripped: st.stripped,
        }
    }

    fn unknown(&self, st: &State, method: &'static str, what: String, out: &mut Vec<Leaf>) {
        out.push(self.leaf(st, method, End::Unknown(what)));
    }

    /// The request has proceeded: scan what follows for server operations.
    fn finish(&self, st: &State, method: &'static str, end: End, first: Option<&syn::Expr>, rest: &[syn::Stmt], out: &mut Vec<Leaf>) {
        let mut leaf = self.leaf(st, method, end);
        let mut v = OpsVisitor { ctx: self, vars: &st.vars, listed: BTreeSet::new(), ops: Vec::new(), filter: None, bad: None };
        if let Some(e) = first {
            v.visit_expr(e);
        }
        for s in rest {
            v.visit_stmt(s);
        }
        leaf.ops = v.ops;
        leaf.filter = v.filter;
        if let Some(b) = v.bad {
            leaf.end = End::Unknown(b);
        }
        out.push(leaf);
    }

    fn walk_fn(&self, module: &str, inner: &[String], name: &str, args: &[&syn::Expr], caller: &State, method: &'static str, out: &mut Vec<Leaf>) {
        let Some(f) = self.find_fn(module, inner, name) else {
            self.unknown(caller, method, format!("handler {module}::{name} not found"), out);
            return;
        };
        let mut st = caller.clone();
        st.module = module.to_string();
        st.inner = inner.to_vec();
        st.handler = name.to_string();
        st.depth += 1;
        if st.depth > 40 {
            self.unknown(&st, method, "recursion too deep".into(), out);
            return;
        }
        let mut vars = HashMap::new();
        let params: Vec<Option<String>> = f
            .sig
            .inputs
            .iter()
            .map(|a| match a {
                syn::FnArg::Typed(t) => pat_ident(&t.pat),
                _ => None,
            })
            .collect();
        if params.len() != args.len() {
            self.unknown(&st, method, format!("arity mismatch calling {name}"), out);
            return;
        }
        let mut has_path = false;
        for (p, a) in params.iter().zip(args) {
            let ac = compact(*a);
            let Some(p) = p else {
                self.unknown(&st, method, format!("parameter pattern of {name}"), out);
                return;
            };
            if ac == "request" {
                if p != "request" {
                    self.unknown(&st, method, format!("{name}: request passed as {p}"), out);
                    return;
                }
                continue;
            }
            if ac == "path" {
                // `_path` = handed over but unused
                if p != "path" && p != "_path" {
                    self.unknown(&st, method, format!("{name}: path passed as {p}"), out);
                    return;
                }
                has_path = p == "path";
                continue;
            }
            if let Some(o) = caller.vars.get(&ac) {
                vars.insert(p.clone(), o.clone());
            }
        }
        let _ = has_path;
        st.vars = vars;
        self.walk_block(&f.block.stmts, st, method, out);
    }

    fn walk_body(&self, body: &syn::Expr, st: State, method: &'static str, out: &mut Vec<Leaf>) {
        match body {
            syn::Expr::Block(b) => self.walk_block(&b.block.stmts, st, method, out),
            _ => {
                let s = syn::Stmt::Expr(body.clone(), None);
                self.walk_block(std::slice::from_ref(&s), st, method, out)
            }
        }
    }

    fn walk_block(&self, stmts: &[syn::Stmt], mut st: State, method: &'static str, out: &mut Vec<Leaf>) {
        for (i, stmt) in stmts.iter().enumerate() {
            let rest = &stmts[i + 1..];
            match stmt {
                syn::Stmt::Local(l) => {
                    let Some(init) = &l.init else { continue };
                    let e = &*init.expr;
                    if let Some((m, args)) = find_recv_call(e, "request") {
                        match m.as_str() {
                            "proceed_permitted" => {
                                if !self.gate(&mut st, &args) {
                                    self.unknown(&st, method, format!("gate arguments: {}", compact(e)), out);
                                    return;
                                }
                                self.finish(&st, method, End::Permitted, None, rest, out);
                                return;
                            }
                            "proceed_unchecked" => {
                                self.finish(&st, method, End::Unchecked, None, rest, out);
                                return;
                            }
                            "proceed_raw" => {
                                self.finish(&st, method, End::Raw, None, rest, out);
                                return;
                            }
                            "user_agent" | "testbed_enabled" => continue,
                            other => {
                                self.unknown(&st, method, format!("let … = request.{other}(…)"), out);
                                return;
                            }
                        }
                    }
                    if let Some((m, _)) = find_recv_call(e, "path") {
                        let name = pat_ident(&l.pat).unwrap_or_else(|| "seg".into());
                        match m.as_str() {
                            "strip_trailing_slash" => {
                                st.stripped = true;
                                continue;
                            }
                            "parse_next" | "next" => {
                                if st.exhausted {
                                    self.unknown(&st, method, "segment read after the end of the path".into(), out);
                                    return;
                                }
                                st.vars.insert(name.clone(), Origin::Seg(st.pattern.len()));
                                st.pattern.push(Seg::Param(name));
                                continue;
                            }
                            "parse_opt_next" => {
                                st.pattern.push(Seg::Opt(name));
                                continue;
                            }
                            other => {
                                self.unknown(&st, method, format!("let … = path.{other}(…)"), out);
                                return;
                            }
                        }
                    }
                    if mentions_ident(e, "request") || mentions_ident(e, "path") {
                        self.unknown(&st, method, format!("let … = {}", compact(e)), out);
                        return;
                    }
                }
                syn::Stmt::Expr(e, _) => {
                    let core = strip(e);
                    // if !request.testbed_enabled() { return Ok(HttpResponse::not_found()) }
                    if let syn::Expr::If(iff) = core {
                        if compact(&iff.cond) == "!request.testbed_enabled()"
                            && iff.else_branch.is_none()
                            && iff.then_branch.stmts.len() == 1
                            && matches!(&iff.then_branch.stmts[0], syn::Stmt::Expr(x, _) if is_not_found(x))
                        {
                            st.testbed_only = true;
                            continue;
                        }
                        self.unknown(&st, method, format!("if {}", compact(&iff.cond)), out);
                        return;
                    }
                    if let syn::Expr::Match(m) = core {
                        self.walk_match(m, st, method, out);
                        return;
                    }
                    // a handler call: f(request, …)
                    if let syn::Expr::Call(c) = core {
                        if c.args.first().map(|a| compact(a)) == Some("request".into()) {
                            if let syn::Expr::Path(p) = &*c.func {
                                let segs: Vec<String> = p.path.segments.iter().map(|s| s.ident.to_string()).collect();
                                let args: Vec<&syn::Expr> = c.args.iter().collect();
                                let name = segs.last().unwrap().clone();
                                let (module, inner): (String, Vec<String>) = if segs.len() == 3 && segs[0] == "super" {
                                    (segs[1].clone(), Vec::new())
                                } else if segs.len() == 2 {
                                    (st.module.clone(), vec![segs[0].clone()])
                                } else if segs.len() == 1 {
                                    (st.module.clone(), st.inner.clone())
                                } else {
                                    self.unknown(&st, method, format!("call path {}", compact(&c.func)), out);
                                    return;
                                };
                                self.walk_fn(&module, &inner, &name, &args, &st, method, out);
                                return;
                            }
                        }
                    }
                    if is_not_found(e) {
                        out.push(self.leaf(&st, method, End::NotFound));
                        return;
                    }
                    if is_method_not_allowed(e) {
                        out.push(self.leaf(&st, method, End::MethodNotAllowed));
                        return;
                    }
                    if let Some((m, args)) = find_recv_call(core, "request") {
                        match m.as_str() {
                            "check_get" | "check_post" | "check_delete" => {
                                let want = match m.as_str() {
                                    "check_get" => "GET",
                                    "check_post" => "POST",
                                    _ => "DELETE",
                                };
                                if method != want {
                                    out.push(self.leaf(&st, method, End::MethodNotAllowed));
                                    return;
                                }
                                continue;
                            }
                            "check_permission" => {
                                if !self.gate(&mut st, &args) {
                                    self.unknown(&st, method, format!("gate arguments: {}", compact(core)), out);
                                    return;
                                }
                                continue;
                            }
                            "proceed_permitted" => {
                                if !self.gate(&mut st, &args) {
                                    self.unknown(&st, method, format!("gate arguments: {}", compact(core)), out);
                                    return;
                                }
                                self.finish(&st, method, End::Permitted, None, rest, out);
                                return;
                            }
                            "proceed_unchecked" => {
                                self.finish(&st, method, End::Unchecked, None, rest, out);
                                return;
                            }
                            "proceed_raw" => {
                                self.finish(&st, method, End::Raw, None, rest, out);
                                return;
                            }
                            other => {
                                self.unknown(&st, method, format!("request.{other}(…)"), out);
                                return;
                            }
                        }
                    }
                    if let Some((m, _)) = find_recv_call(core, "path") {
                        match m.as_str() {
                            "check_exhausted" => {
                                st.exhausted = true;
                                continue;
                            }
                            other => {
                                self.unknown(&st, method, format!("path.{other}(…)"), out);
                                return;
                            }
                        }
                    }
                    if mentions_ident(core, "request") || mentions_ident(core, "path") {
                        self.unknown(&st, method, compact(core), out);
                        return;
                    }
                    // a final expression that answers without the server object
                    if i + 1 == stmts.len() {
                        out.push(self.leaf(&st, method, End::Static));
                        return;
                    }
                }
                syn::Stmt::Item(_) => continue,
                syn::Stmt::Macro(m) => {
                    let name = compact(&m.mac.path);
                    if name == "trace" || name == "debug" || name == "info" || name == "warn" {
                        continue;
                    }
                    self.unknown(&st, method, format!("macro {name}!"), out);
                    return;
                }
            }
        }
        self.unknown(&st, method, "handler body ends without a response".into(), out);
    }

    fn gate(&self, st: &mut State, args: &[&syn::Expr]) -> bool {
        if args.len() != 2 {
            return false;
        }
        let Some(p) = self.permission(args[0]) else { return false };
        let r = self.resource(args[1], &st.vars, &BTreeSet::new());
        let ok = !matches!(r, Res::Unknown(_));
        st.gates.push((p, r));
        ok
    }

    fn walk_match(&self, m: &syn::ExprMatch, st: State, method: &'static str, out: &mut Vec<Leaf>) {
        let scrut = compact(strip(&m.expr));
        let is_next = scrut == "path.next()" || matches!(st.vars.get(&scrut), Some(Origin::NextSeg));
        if is_next {
            if st.exhausted {
                self.unknown(&st, method, "segment read after the end of the path".into(), out);
                return;
            }
            let mut saw_wild = false;
            for arm in &m.arms {
                if arm.guard.is_some() {
                    self.unknown(&st, method, "match guard on a path segment".into(), out);
                    continue;
                }
                if let Some(lits) = lit_pats(&arm.pat) {
                    for l in lits {
                        let mut s2 = st.clone();
                        s2.pattern.push(Seg::Lit(l));
                        self.walk_body(&arm.body, s2, method, out);
                    }
                } else if compact(&arm.pat) == "None" {
                    let mut s2 = st.clone();
                    s2.exhausted = true;
                    self.walk_body(&arm.body, s2, method, out);
                } else if let syn::Pat::Wild(_) = &arm.pat {
                    saw_wild = true;
                    let mut s2 = st.clone();
                    s2.pattern.push(Seg::Bogus);
                    if is_not_found(&arm.body) {
                        out.push(self.leaf(&s2, method, End::NotFound));
                    } else {
                        self.unknown(&s2, method, format!("catch-all arm does {}", compact(&arm.body)), out);
                    }
                } else if let Some(v) = pat_ident(&arm.pat) {
                    // `other => { …; match other { … } }`
                    saw_wild = true;
                    let mut s2 = st.clone();
                    s2.vars.insert(v, Origin::NextSeg);
                    self.walk_body(&arm.body, s2, method, out);
                } else {
                    self.unknown(&st, method, format!("segment pattern {}", compact(&arm.pat)), out);
                }
            }
            if !saw_wild {
                self.unknown(&st, method, "segment match without catch-all arm".into(), out);
            }
            return;
        }
        if scrut == "path.parse_opt_next()" {
            for arm in &m.arms {
                if compact(&arm.pat) == "None" {
                    let mut s2 = st.clone();
                    s2.exhausted = true;
                    self.walk_body(&arm.body, s2, method, out);
                } else if let Some(v) = some_ident(&arm.pat) {
                    let mut s2 = st.clone();
                    s2.vars.insert(v.clone(), Origin::Seg(s2.pattern.len()));
                    s2.pattern.push(Seg::Param(v));
                    self.walk_body(&arm.body, s2, method, out);
                } else {
                    self.unknown(&st, method, format!("parse_opt_next pattern {}", compact(&arm.pat)), out);
                }
            }
            return;
        }
        if scrut == "*request.method()" {
            let mut chosen: Option<&syn::Arm> = None;
            let mut wild: Option<&syn::Arm> = None;
            for arm in &m.arms {
                let p = compact(&arm.pat);
                if arm.guard.is_some() {
                    self.unknown(&st, method, "guard in method match".into(), out);
                    return;
                }
                if let Some(mm) = p.strip_prefix("Method::") {
                    if mm == method {
                        chosen = Some(arm);
                    }
                    if !["GET", "POST", "DELETE"].contains(&mm) {
                        // a method the enumeration does not cover separately
                        self.unknown(&st, method, format!("method arm {p}"), out);
                        return;
                    }
                } else if let syn::Pat::Wild(_) = &arm.pat {
                    wild = Some(arm);
                } else {
                    self.unknown(&st, method, format!("method pattern {p}"), out);
                    return;
                }
            }
            match (chosen, wild) {
                (Some(a), _) => self.walk_body(&a.body, st, method, out),
                (None, Some(w)) => {
                    if is_method_not_allowed(&w.body) {
                        out.push(self.leaf(&st, method, End::MethodNotAllowed));
                    } else {
                        self.unknown(&st, method, format!("catch-all method arm does {}", compact(&w.body)), out);
                    }
                }
                (None, None) => self.unknown(&st, method, "method match without catch-all".into(), out),
            }
            return;
        }
        self.unknown(&st, method, format!("match {scrut}"), out);
    }
}

struct OpsVisitor<'c> {
    ctx: &'c Ctx,
    vars: &'c HashMap<String, Origin>,
    listed: BTreeSet<String>,
    ops: Vec<OpCall>,
    filter: Option<(String, Res)>,
    bad: Option<String>,
}

impl<'c> OpsVisitor<'c> {
    fn target(&self, e: Option<&syn::Expr>) -> Target {
        let Some(e) = e else { return Target::Other };
        let mut c = compact(e);
        if let Some(x) = c.strip_suffix(".clone()") {
            c = x.to_string();
        }
        if let Some(x) = c.strip_prefix('&') {
            c = x.to_string();
        }
        if c == "ta_handle()" {
            return Target::TaHandle;
        }
        if c == "testbed_ca_handle()" {
            return Target::TestbedCa;
        }
        if self.listed.contains(&c) {
            return Target::Listed;
        }
        match self.vars.get(&c) {
            Some(Origin::Seg(i)) => Target::Seg(*i),
            Some(Origin::Listed) => Target::Listed,
            _ => Target::Other,
        }
    }
}

impl<'a, 'c> Visit<'a> for OpsVisitor<'c> {
    fn visit_expr_closure(&mut self, c: &'a syn::ExprClosure) {
        let mut ids = Vec::new();
        for p in &c.inputs {
            pat_idents(p, &mut ids);
        }
        let added: Vec<String> = ids.into_iter().filter(|i| self.listed.insert(i.clone())).collect();
        syn::visit::visit_expr_closure(self, c);
        for a in added {
            self.listed.remove(&a);
        }
    }
    fn visit_expr_for_loop(&mut self, f: &'a syn::ExprForLoop) {
        let mut ids = Vec::new();
        pat_idents(&f.pat, &mut ids);
        // the iterated expression is evaluated outside the binding
        self.visit_expr(&f.expr);
        let added: Vec<String> = ids.into_iter().filter(|i| self.listed.insert(i.clone())).collect();
        self.visit_block(&f.body);
        for a in added {
            self.listed.remove(&a);
        }
    }
    fn visit_expr_method_call(&mut self, m: &'a syn::ExprMethodCall) {
        let recv = compact(&m.receiver);
        let name = m.method.to_string();
        let actor = {
            let args = m.args.iter().map(|a| compact(a)).collect::<Vec<_>>();
            if args.iter().any(|a| a == "auth.into_actor()" || a == "auth.actor().clone()") {
                "auth"
            } else if args.iter().any(|a| a == "Actor::anonymous()") {
                "anonymous"
            } else if args.iter().any(|a| a.contains("Actor::") || a.contains("actor")) {
                "unknown"
            } else {
                "none"
            }
        };
        if recv == "server.krill()" {
            self.ops.push(OpCall { name, target: self.target(m.args.first()), actor });
        } else if recv == "server.authorizer()" {
            self.ops.push(OpCall { name: format!("authorizer_{name}"), target: Target::Other, actor });
        } else if recv == "server" || recv == "_server" {
            if name == "server_info" {
                self.ops.push(OpCall { name, target: Target::Other, actor });
            } else if name != "config" && name != "krill" && name != "authorizer" {
                self.bad = Some(format!("server.{name}(…)"));
            }
        } else if recv == "auth" && (name == "has_permission" || name == "check_permission") {
            let args: Vec<&syn::Expr> = m.args.iter().collect();
            if args.len() == 2 {
                match self.ctx.permission(args[0]) {
                    Some(p) => {
                        let r = self.ctx.resource(args[1], self.vars, &self.listed);
                        if self.filter.is_some() {
                            self.bad = Some("more than one listing filter".into());
                        }
                        self.filter = Some((p, r));
                    }
                    None => self.bad = Some(format!("filter permission {}", compact(args[0]))),
                }
            } else {
                self.bad = Some("filter arguments".into());
            }
        }
        syn::visit::visit_expr_method_call(self, m);
    }
}

// ------------------------------------------------------------------ output

fn pattern_text(p: &[Seg]) -> String {
    let mut s = String::new();
    for seg in p {
        s.push('/');
        match seg {
            Seg::Lit(l) => s.push_str(l),
            Seg::Param(n) => s.push_str(&format!("{{{n}}}")),
            Seg::Opt(n) => s.push_str(&format!("[{n}]")),
            Seg::Rest => s.push_str("**"),
            Seg::Bogus => s.push_str("<other>"),
        }
    }
    s
}

fn lit_name(l: &str) -> String {
    if l.is_empty() {
        return "l_empty".into();
    }
    let mut s = String::from("l_");
    for c in l.chars() {
        if c.is_ascii_alphanumeric() {
            s.push(c);
        } else {
            s.push('_');
        }
    }
    s
}

fn res_lean(r: &Res) -> String {
    match r {
        Res::None => ".none".into(),
        Res::Seg(i) => format!(".seg {i}"),
        Res::Listed => ".listed".into(),
        Res::Unknown(_) => ".unknown".into(),
    }
}

fn res_json(r: &Res) -> String {
    match r {
        Res::None => "none".into(),
        Res::Seg(i) => format!("seg:{i}"),
        Res::Listed => "listed".into(),
        Res::Unknown(s) => format!("unknown:{s}"),
    }
}

fn target_lean(t: &Target) -> String {
    match t {
        Target::Seg(i) => format!(".seg {i}"),
        Target::TaHandle => ".taHandle".into(),
        Target::TestbedCa => ".testbedCa".into(),
        Target::Listed => ".listed".into(),
        Target::Other => ".other".into(),
    }
}

fn end_lean(e: &End) -> &'static str {
    match e {
        End::Permitted => ".proceed .permitted",
        End::Unchecked => ".proceed .unchecked",
        End::Raw => ".proceed .raw",
        End::Static => ".static",
        End::MethodNotAllowed => ".methodNotAllowed",
        End::NotFound => ".notFound",
        End::Unknown(_) => ".unknown",
    }
}

fn end_json(e: &End) -> String {
    match e {
        End::Permitted => "permitted".into(),
        End::Unchecked => "unchecked".into(),
        End::Raw => "raw".into(),
        End::Static => "static".into(),
        End::MethodNotAllowed => "405".into(),
        End::NotFound => "404".into(),
        End::Unknown(s) => format!("unknown:{s}"),
    }
}

fn js(s: &str) -> String {
    let mut o = String::from("\"");
    for c in s.chars() {
        match c {
            '"' => o.push_str("\\\""),
            '\\' => o.push_str("\\\\"),
            '\n' => o.push_str("\\n"),
            c if (c as u32) < 0x20 => o.push_str(&format!("\\u{:04x}", c as u32)),
            c => o.push(c),
        }
    }
    o.push('"');
    o
}

pub fn run(repo: &Path, out_lean: &Path) -> String {
    let mut files = BTreeMap::new();
    let dir = repo.join("src/daemon/http/dispatch");
    let mut names: Vec<String> = std::fs::read_dir(&dir)
        .unwrap_or_else(|e| panic!("read_dir {}: {e}", dir.display()))
        .filter_map(|e| e.ok())
        .filter_map(|e| e.file_name().to_str().map(|s| s.to_string()))
        .filter(|n| n.ends_with(".rs") && n != "mod.rs")
        .collect();
    names.sort();
    for n in &names {
        files.insert(
            n.trim_end_matches(".rs").to_string(),
            parse_file(repo, &format!("src/daemon/http/dispatch/{n}")),
        );
    }
    let perms = crate::permissions::permissions(repo);
    let ctx = Ctx { files, perms: perms.all.iter().map(|p| p.0.clone()).collect() };

    let mut leaves: Vec<Leaf> = Vec::new();
    for method in METHODS {
        let st = State {
            module: "root".into(),
            inner: Vec::new(),
            pattern: Vec::new(),
            exhausted: false,
            vars: HashMap::new(),
            gates: Vec::new(),
            testbed_only: false,
            stripped: false,
            handler: "dispatch_request".into(),
            depth: 0,
        };
        let req: syn::Expr = syn::parse_str("request").unwrap();
        let path: syn::Expr = syn::parse_str("path").unwrap();
        ctx.walk_fn("root", &[], "dispatch_request", &[&req, &path], &st, method, &mut leaves);
    }
    // stable order: pattern text, then method
    let morder = |m: &str| METHODS.iter().position(|x| *x == m).unwrap();
    leaves.sort_by(|a, b| {
        (pattern_text(&a.pattern), morder(a.method)).cmp(&(pattern_text(&b.pattern), morder(b.method)))
    });

    let mut lits: BTreeSet<String> = BTreeSet::new();
    let mut ops: BTreeSet<String> = BTreeSet::new();
    for l in &leaves {
        for s in &l.pattern {
            if let Seg::Lit(x) = s {
                lits.insert(x.clone());
            }
        }
        for o in &l.ops {
            ops.insert(o.name.clone());
        }
    }
    // distinct literals may sanitise to the same name
    let mut lit_names: BTreeMap<String, String> = BTreeMap::new();
    let mut used: BTreeSet<String> = BTreeSet::new();
    for l in &lits {
        let mut n = lit_name(l);
        while !used.insert(n.clone()) {
            n.push('_');
        }
        lit_names.insert(l.clone(), n);
    }

    let mut o = lean_header("src/daemon/http/dispatch/*.rs (symbolic execution from root::dispatch_request, once per method)");
    o.push_str("import KrillModel.Generated.Perm\nnamespace KM.Generated\n\n");
    o.push_str("/-- Literal path segments the dispatch code matches on. -/\ninductive Lit where\n");
    for n in lit_names.values() {
        o.push_str(&format!("  | {n}\n"));
    }
    o.push_str("deriving DecidableEq, Repr\n\ndef Lit.text : Lit → String\n");
    for (l, n) in &lit_names {
        o.push_str(&format!("  | .{n} => {}\n", lean_str(l)));
    }
    o.push_str("\n/-- One segment of a path pattern: a literal, a parsed parameter, an optional trailing parameter,\n");
    o.push_str("any remaining suffix, or any literal that no sibling arm matches (the catch-all arm). -/\n");
    o.push_str("inductive Seg where\n  | lit (l : Lit)\n  | param\n  | opt\n  | rest\n  | bogus\nderiving DecidableEq, Repr\n\n");
    o.push_str("/-- Request methods; `OTHER` stands for every method that is not GET, POST or DELETE. -/\n");
    o.push_str("inductive Method where\n  | GET | POST | DELETE | OTHER\nderiving DecidableEq, Repr\n\n");
    o.push_str("/-- The resource argument of a permission check: `None`, the handle parsed from path segment `i`,\n");
    o.push_str("each handle of a listing (`has_permission` inside a filter), or an expression the translator\n");
    o.push_str("could not resolve. -/\n");
    o.push_str("inductive Res where\n  | none\n  | seg (i : Nat)\n  | listed\n  | unknown\nderiving DecidableEq, Repr\n\n");
    o.push_str("/-- Where the first argument of a server call comes from. -/\n");
    o.push_str("inductive Target where\n  | seg (i : Nat)\n  | taHandle\n  | testbedCa\n  | listed\n  | other\nderiving DecidableEq, Repr\n\n");
    o.push_str("/-- Which actor a server call is handed: the authenticated one, the anonymous constant, none. -/\n");
    o.push_str("inductive ActorSrc where\n  | auth | anonymous | none | unknown\nderiving DecidableEq, Repr\n\n");
    o.push_str("/-- Methods of the server object (`server.krill().…`, `server.authorizer().…`, `server.server_info()`)\n");
    o.push_str("called by some handler. -/\ninductive ServerOp where\n");
    for n in &ops {
        o.push_str(&format!("  | {}\n", lean_ident(n)));
    }
    o.push_str("deriving DecidableEq, Repr\n\n");
    o.push_str("inductive Proceed where\n  | permitted | unchecked | raw\nderiving DecidableEq, Repr\n\n");
    o.push_str("/-- How a row ends once all its gates are passed. -/\n");
    o.push_str("inductive End where\n  | proceed (p : Proceed)\n  | static\n  | methodNotAllowed\n  | notFound\n  | unknown\nderiving DecidableEq, Repr\n\n");
    o.push_str("structure OpCall where\n  op : ServerOp\n  target : Target\n  actor : ActorSrc\nderiving DecidableEq, Repr\n\n");
    o.push_str("structure Route where\n  idx : Nat\n  path : List Seg\n  method : Method\n  gates : List (Permission × Res)\n  fin : End\n  ops : List OpCall\n  filter : Option (Permission × Res)\n  testbedOnly : Bool\nderiving DecidableEq, Repr\n\n");
    o.push_str("def routes : List Route := [\n");
    let mut json = String::from("[\n");
    let mut unknowns: Vec<String> = Vec::new();
    for (idx, l) in leaves.iter().enumerate() {
        let path = l
            .pattern
            .iter()
            .map(|s| match s {
                Seg::Lit(x) => format!(".lit .{}", lit_names[x]),
                Seg::Param(_) => ".param".into(),
                Seg::Opt(_) => ".opt".into(),
                Seg::Rest => ".rest".into(),
                Seg::Bogus => ".bogus".into(),
            })
            .collect::<Vec<_>>()
            .join(", ");
        let gates = l.gates.iter().map(|(p, r)| format!("(.{p}, {})", res_lean(r))).collect::<Vec<_>>().join(", ");
        let opsl = l
            .ops
            .iter()
            .map(|c| format!("⟨.{}, {}, .{}⟩", lean_ident(&c.name), target_lean(&c.target), c.actor))
            .collect::<Vec<_>>()
            .join(", ");
        let filter = match &l.filter {
            Some((p, r)) => format!("some (.{p}, {})", res_lean(r)),
            None => "none".into(),
        };
        o.push_str(&format!(
            "  -- {} {}  ({})\n  ⟨{idx}, [{path}], .{}, [{gates}], {}, [{opsl}], {filter}, {}⟩{}\n",
            l.method,
            pattern_text(&l.pattern),
            l.handler,
            l.method,
            end_lean(&l.end),
            l.testbed_only,
            if idx + 1 == leaves.len() { "" } else { "," }
        ));
        if let End::Unknown(w) = &l.end {
            unknowns.push(format!("{} {}: {w}", l.method, pattern_text(&l.pattern)));
        }
        let segs = l
            .pattern
            .iter()
            .map(|s| match s {
                Seg::Lit(x) => format!("{{\"lit\":{}}}", js(x)),
                Seg::Param(n) => format!("{{\"param\":{}}}", js(n)),
                Seg::Opt(n) => format!("{{\"opt\":{}}}", js(n)),
                Seg::Rest => "{\"rest\":true}".into(),
                Seg::Bogus => "{\"bogus\":true}".into(),
            })
            .collect::<Vec<_>>()
            .join(",");
        let gj = l.gates.iter().map(|(p, r)| format!("[{},{}]", js(p), js(&res_json(r)))).collect::<Vec<_>>().join(",");
        let oj = l
            .ops
            .iter()
            .map(|c| format!("[{},{},{}]", js(&c.name), js(&target_lean(&c.target)), js(c.actor)))
            .collect::<Vec<_>>()
            .join(",");
        let fj = match &l.filter {
            Some((p, r)) => format!("[{},{}]", js(p), js(&res_json(r))),
            None => "null".into(),
        };
        json.push_str(&format!(
            " {{\"idx\":{idx},\"pattern\":{},\"segs\":[{segs}],\"method\":{},\"gates\":[{gj}],\"end\":{},\"ops\":[{oj}],\"filter\":{fj},\"testbed_only\":{},\"handler\":{},\"stripped\":{}}}{}\n",
            js(&pattern_text(&l.pattern)),
            js(l.method),
            js(&end_json(&l.end)),
            l.testbed_only,
            js(&l.handler),
            l.stripped,
            if idx + 1 == leaves.len() { "" } else { "," }
        ));
    }
    o.push_str("]\n\n");
    json.push_str("]\n");
    for u in &unknowns {
        o.push_str(&format!("-- UNKNOWN: {u}\n"));
    }
    o.push_str("\nend KM.Generated\n");
    let jpath = out_lean.with_extension("json");
    let old = std::fs::read_to_string(&jpath).unwrap_or_default();
    if old != json {
        if let Some(p) = jpath.parent() {
            std::fs::create_dir_all(p).expect("mkdir");
        }
        std::fs::write(&jpath, json).expect("write json");
    }
    o
}
