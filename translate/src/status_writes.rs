//! C19 tables.
//!
//! 1. `statusWrites`: for every `&mut self` method of `RepoStatus`, `ParentStatus`, `ChildStatus`
//!    (src/api/ca.rs) the writes to `self`, in source order: `set:<field>[:Success|Failure|None]`,
//!    `<method>:<field>` for a call on a field (`retain`, `push`, `clone_from`), `call:<method>` for a
//!    call on `self`, and `arm:<Variant>` markers for match arms (the three arms of `update_published`).
//! 2. `statusCalls`: every call `self.status_store.<method>(…)` in `impl CaManager`
//!    (src/server/ca/manager.rs) with the function it is in and the chain of match arms / if branches
//!    around it – i.e. on which reply which status setter is called.
//! 3. `statusStoreOps`: for every method of `CaStatusStore` (src/server/ca/status.rs) the calls on the
//!    cache maps and the key-value store, in source order.

use std::path::Path;
use syn::visit::Visit;
use crate::util::*;

fn last_ident_of_pat(p: &syn::Pat) -> String {
    match p {
        syn::Pat::TupleStruct(t) => t.path.segments.last().map(|s| s.ident.to_string()).unwrap_or_default(),
        syn::Pat::Path(t) => t.path.segments.last().map(|s| s.ident.to_string()).unwrap_or_default(),
        syn::Pat::Struct(t) => t.path.segments.last().map(|s| s.ident.to_string()).unwrap_or_default(),
        syn::Pat::Ident(i) => i.ident.to_string(),
        syn::Pat::Wild(_) => "_".into(),
        syn::Pat::Or(o) => o.cases.iter().map(last_ident_of_pat).collect::<Vec<_>>().join("|"),
        syn::Pat::Reference(r) => last_ident_of_pat(&r.pat),
        other => compact(other),
    }
}

fn self_field(e: &syn::Expr) -> Option<String> {
    if let syn::Expr::Field(f) = e {
        if let syn::Expr::Path(p) = &*f.base {
            if p.path.is_ident("self") {
                if let syn::Member::Named(n) = &f.member {
                    return Some(n.to_string());
                }
            }
        }
    }
    None
}

fn is_self(e: &syn::Expr) -> bool {
    matches!(e, syn::Expr::Path(p) if p.path.is_ident("self"))
}

/// `Success` / `Failure` / `None` mentioned in the right-hand side of an assignment.
fn rhs_kind(e: &syn::Expr) -> Option<&'static str> {
    let c = compact(e);
    if c.contains("ExchangeResult::Success") {
        Some("Success")
    } else if c.contains("ExchangeResult::Failure") {
        Some("Failure")
    } else if c == "None" {
        Some("None")
    } else {
        None
    }
}

#[derive(Default)]
struct Writes(Vec<String>);

impl<'ast> Visit<'ast> for Writes {
    fn visit_expr_assign(&mut self, a: &'ast syn::ExprAssign) {
        if let Some(f) = self_field(&a.left) {
            match rhs_kind(&a.right) {
                Some(k) => self.0.push(format!("set:{f}:{k}")),
                None => self.0.push(format!("set:{f}")),
            }
        }
        syn::visit::visit_expr_assign(self, a);
    }
    fn visit_expr_method_call(&mut self, c: &'ast syn::ExprMethodCall) {
        if let Some(f) = self_field(&c.receiver) {
            self.0.push(format!("{}:{f}", c.method));
        } else if is_self(&c.receiver) {
            self.0.push(format!("call:{}", c.method));
        }
        syn::visit::visit_expr_method_call(self, c);
    }
    fn visit_arm(&mut self, a: &'ast syn::Arm) {
        self.0.push(format!("arm:{}", last_ident_of_pat(&a.pat)));
        syn::visit::visit_arm(self, a);
    }
}

fn takes_mut_self(f: &syn::ImplItemFn) -> bool {
    matches!(f.sig.inputs.first(), Some(syn::FnArg::Receiver(r)) if r.mutability.is_some())
}

fn writes_table(repo: &Path) -> Vec<(String, String, Vec<String>)> {
    let file = parse_file(repo, "src/api/ca.rs");
    let mut out = vec![];
    for item in &file.items {
        if let syn::Item::Impl(imp) = item {
            if imp.trait_.is_some() {
                continue;
            }
            let ty = compact(&imp.self_ty);
            if !["RepoStatus", "ParentStatus", "ChildStatus"].contains(&ty.as_str()) {
                continue;
            }
            for it in &imp.items {
                if let syn::ImplItem::Fn(f) = it {
                    if !takes_mut_self(f) {
                        continue;
                    }
                    let mut w = Writes::default();
                    w.visit_block(&f.block);
                    out.push((ty.clone(), f.sig.ident.to_string(), w.0));
                }
            }
        }
    }
    out
}

struct Calls {
    func: String,
    ctx: Vec<String>,
    out: Vec<(String, String, String)>,
}

impl<'ast> Visit<'ast> for Calls {
    fn visit_expr_method_call(&mut self, c: &'ast syn::ExprMethodCall) {
        if self_field(&c.receiver).as_deref() == Some("status_store") {
            self.out.push((self.func.clone(), self.ctx.join("/"), c.method.to_string()));
        }
        syn::visit::visit_expr_method_call(self, c);
    }
    fn visit_arm(&mut self, a: &'ast syn::Arm) {
        self.ctx.push(last_ident_of_pat(&a.pat));
        syn::visit::visit_arm(self, a);
        self.ctx.pop();
    }
    fn visit_expr_if(&mut self, i: &'ast syn::ExprIf) {
        self.visit_expr(&i.cond);
        let c = compact(&i.cond);
        let c = if c.len() > 40 { format!("{}...", c.chars().take(40).collect::<String>()) } else { c };
        self.ctx.push(format!("if {c}"));
        self.visit_block(&i.then_branch);
        self.ctx.pop();
        if let Some((_, e)) = &i.else_branch {
            self.ctx.push("else".into());
            self.visit_expr(e);
            self.ctx.pop();
        }
    }
}

fn calls_table(repo: &Path) -> Vec<(String, String, String)> {
    let file = parse_file(repo, "src/server/ca/manager.rs");
    let mut out = vec![];
    for item in &file.items {
        if let syn::Item::Impl(imp) = item {
            if imp.trait_.is_some() || compact(&imp.self_ty) != "CaManager" {
                continue;
            }
            for it in &imp.items {
                if let syn::ImplItem::Fn(f) = it {
                    let mut c = Calls { func: f.sig.ident.to_string(), ctx: vec![], out: vec![] };
                    c.visit_block(&f.block);
                    out.extend(c.out);
                }
            }
        }
    }
    out
}

/// Calls on `cache`-derived maps and on `self.store` inside `CaStatusStore`, in source order.
#[derive(Default)]
struct StoreOps(Vec<String>);

impl<'ast> Visit<'ast> for StoreOps {
    fn visit_expr_method_call(&mut self, c: &'ast syn::ExprMethodCall) {
        // visit the receiver first so that chains come out in evaluation order
        syn::visit::visit_expr_method_call(self, c);
        let m = c.method.to_string();
        let recv = compact(&c.receiver);
        if self_field(&c.receiver).as_deref() == Some("store") {
            self.0.push(format!("store.{m}"));
        } else if ["insert", "remove", "get_mut", "get_or_default_mut", "contains_key"].contains(&m.as_str()) {
            let r = recv.rsplit('.').next().unwrap_or(&recv).to_string();
            self.0.push(format!("{r}.{m}"));
        } else if is_self(&c.receiver) {
            self.0.push(format!("self.{m}"));
        } else if recv == "status" {
            // inside the closure handed to update_*: which setter of the status value is used
            self.0.push(format!("status.{m}"));
        }
    }
    fn visit_expr_call(&mut self, c: &'ast syn::ExprCall) {
        if compact(&c.func) == "op" {
            self.0.push("op()".into());
        }
        syn::visit::visit_expr_call(self, c);
    }
}

fn store_table(repo: &Path) -> Vec<(String, Vec<String>)> {
    let file = parse_file(repo, "src/server/ca/status.rs");
    let mut out = vec![];
    for item in &file.items {
        if let syn::Item::Impl(imp) = item {
            if imp.trait_.is_some() || compact(&imp.self_ty) != "CaStatusStore" {
                continue;
            }
            for it in &imp.items {
                if let syn::ImplItem::Fn(f) = it {
                    let name = f.sig.ident.to_string();
                    if name == "convert_pre_0_9_5_full_status_if_present" || name == "error_to_error_res" {
                        continue;
                    }
                    let mut s = StoreOps::default();
                    s.visit_block(&f.block);
                    out.push((name, s.0));
                }
            }
        }
    }
    out
}

fn lean_list(xs: &[String]) -> String {
    format!("[{}]", xs.iter().map(|x| lean_str(x)).collect::<Vec<_>>().join(", "))
}

pub fn run(repo: &Path) -> String {
    let mut out = lean_header(
        "src/api/ca.rs (RepoStatus, ParentStatus, ChildStatus), src/server/ca/manager.rs (calls of the status store), \
         src/server/ca/status.rs (CaStatusStore)",
    );
    out.push_str("namespace KM.Generated\n\n");
    out.push_str("/-- (type, method, writes to `self` in source order) -/\n");
    out.push_str("def statusWrites : List (String × String × List String) := [\n");
    let w = writes_table(repo);
    for (i, (ty, f, ws)) in w.iter().enumerate() {
        out.push_str(&format!(
            "  ({}, {}, {}){}\n",
            lean_str(ty),
            lean_str(f),
            lean_list(ws),
            if i + 1 < w.len() { "," } else { "" }
        ));
    }
    out.push_str("]\n\n");
    out.push_str("/-- (function of `CaManager`, match arms / branches around the call, status store method) -/\n");
    out.push_str("def statusCalls : List (String × String × String) := [\n");
    let c = calls_table(repo);
    for (i, (f, ctx, m)) in c.iter().enumerate() {
        out.push_str(&format!(
            "  ({}, {}, {}){}\n",
            lean_str(f),
            lean_str(ctx),
            lean_str(m),
            if i + 1 < c.len() { "," } else { "" }
        ));
    }
    out.push_str("]\n\n");
    out.push_str("/-- (method of `CaStatusStore`, calls on the cache maps and the key-value store in evaluation order) -/\n");
    out.push_str("def statusStoreOps : List (String × List String) := [\n");
    let s = store_table(repo);
    for (i, (f, ops)) in s.iter().enumerate() {
        out.push_str(&format!(
            "  ({}, {}){}\n",
            lean_str(f),
            lean_list(ops),
            if i + 1 < s.len() { "," } else { "" }
        ));
    }
    out.push_str("]\n\nend KM.Generated\n");
    out
}
