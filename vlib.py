"""Shared machinery of /verif/check: translate, prove, build, correspond, search, decide."""
import fcntl, hashlib, json, os, re, shutil, subprocess, sys, time
from pathlib import Path

VERIF = Path(__file__).resolve().parent
REPO = Path(os.environ.get("VERIF_REPO", "/repo"))
LEAN = VERIF / "lean"
HARNESS = VERIF / "harness"
TRANSLATE = VERIF / "translate"
KMODEL = LEAN / ".lake/build/bin/kmodel"
SCRATCH = Path(os.environ.get("VERIF_SCRATCH", "/tmp/kverif"))

ALLOWED_AXIOMS = {"propext", "Classical.choice", "Quot.sound"}
FORBIDDEN = re.compile(r"\bsorry\b|\badmit\b|^axiom |native_decide|bv_decide|implemented_by|\bunsafe |maxHeartbeats 0")

TRUSTED_BASE = [
    "Lean 4.33.0 kernel (lake build; thorough tier re-checks the property modules with leanchecker)",
    "axioms allowed: propext, Classical.choice, Quot.sound (audited per theorem with #print axioms); no sorry/native_decide/bv_decide/own axioms",
    "the hand-written Lean model, tied to /repo only through the correspondence streams (differential execution, seeded generators)",
    "the syn-based translators in /verif/translate for the GENERATED tables",
    "the Rust harness in /verif/harness (drives the real code in-process with hooks --cfg nlnetlabs_krill_verif) and this Python driver",
    "modelled, not verified: rpki-rs, OpenSSL, serde, tokio/hyper, fd-lock, file system, OS scheduler, wall clock",
]


class Ctx:
    def __init__(self, pid, tier, seed):
        self.pid = pid
        self.tier = tier
        self.seed = seed
        self.t0 = time.time()
        self.work = SCRATCH / f"{pid}-{os.getpid()}"
        self.work.mkdir(parents=True, exist_ok=True)
        self.violations = []       # (replay_path, suffix)
        self.known_reported = []
        self.obligations = []      # theorem names
        self.failed_obligations = []  # theorem names (or descriptions) that did not check
        self.axioms = {}
        self.coverage = {}
        self.assumptions = []
        self.notes = []
        self.samples = []
        self.hist = {}
        self.evaluations = 0
        self.traces_validated = 0
        self.streams = {}

    def log(self, *a):
        print(f"[{self.pid} {time.time()-self.t0:6.1f}s]", *a, flush=True)

    def cleanup(self):
        shutil.rmtree(self.work, ignore_errors=True)


class Lock:
    def __init__(self, name):
        self.path = VERIF / f".lock-{name}"
    def __enter__(self):
        self.f = open(self.path, "w")
        fcntl.flock(self.f, fcntl.LOCK_EX)
    def __exit__(self, *a):
        fcntl.flock(self.f, fcntl.LOCK_UN)
        self.f.close()


def run(cmd, cwd=None, env=None, timeout=None, stdin=None, stdout=None):
    e = dict(os.environ)
    e.setdefault("CARGO_NET_OFFLINE", "true")
    if env:
        e.update(env)
    return subprocess.run(cmd, cwd=cwd, env=e, timeout=timeout, stdin=stdin,
                          stdout=stdout if stdout is not None else subprocess.PIPE,
                          stderr=subprocess.STDOUT if stdout is None else subprocess.PIPE, text=True)


# ---------------------------------------------------------------- translate

def translate(ctx, tables):
    """tables: list of (table, out relative to lean/KrillModel/Generated)."""
    with Lock("cargo-translate"):
        r = run(["cargo", "build", "--release", "--offline"], cwd=TRANSLATE)
        if r.returncode != 0:
            ctx.log(r.stdout[-3000:])
            raise SystemExit("translator build failed")
    for table, out in tables:
        with Lock("lake"):
            r = run([str(TRANSLATE / "target/release/ktranslate"), table, str(REPO), str(LEAN / "KrillModel/Generated" / out)])
        if r.returncode != 0:
            ctx.log(f"translator {table} failed:\n{r.stdout[-2000:]}")
            ctx.failed_obligations.append(f"translator:{table}")
            ctx.notes.append(f"translator {table} could not read the source: {r.stdout[-500:]}")


# ---------------------------------------------------------------- prove

def theorems_in(path):
    names = []
    ns = []
    txt = Path(path).read_text()
    for line in txt.splitlines():
        m = re.match(r"namespace\s+(\S+)", line)
        if m:
            ns.append(m.group(1))
        m = re.match(r"(?:private\s+|protected\s+)?theorem\s+(\S+)", line)
        if m:
            names.append((".".join(ns + [m.group(1)]) if ns else m.group(1)))
    return names


def theorem_spans(path):
    """[(start_line, name)] for mapping error lines to theorems."""
    spans = []
    for i, line in enumerate(Path(path).read_text().splitlines(), 1):
        m = re.match(r"(?:private\s+|protected\s+)?(?:theorem|example|def|lemma)\s*(\S*)", line)
        if m:
            spans.append((i, m.group(1) or "example"))
    return spans


def forbidden_tokens(paths):
    hits = []
    for p in paths:
        in_block = 0
        for i, line in enumerate(Path(p).read_text().splitlines(), 1):
            code = line
            # strip comments (line comments and nested block comments, roughly)
            out = ""
            j = 0
            while j < len(code):
                if code.startswith("/-", j):
                    in_block += 1; j += 2; continue
                if code.startswith("-/", j) and in_block:
                    in_block -= 1; j += 2; continue
                if not in_block and code.startswith("--", j):
                    break
                if not in_block:
                    out += code[j]
                j += 1
            if FORBIDDEN.search(out):
                hits.append(f"{p}:{i}: {line.strip()}")
    return hits


def lean_sources_of(modules):
    """Transitive local imports of the given modules (files under lean/)."""
    seen = {}
    todo = list(modules)
    while todo:
        m = todo.pop()
        if m in seen:
            continue
        p = LEAN / (m.replace(".", "/") + ".lean")
        if not p.exists():
            continue
        seen[m] = p
        for line in p.read_text().splitlines():
            mm = re.match(r"import\s+(KrillModel\S*)", line)
            if mm:
                todo.append(mm.group(1))
    return seen


def prove(ctx, prop_modules, extra_targets=("kmodel",)):
    """Builds the property modules, audits axioms. Fills ctx.obligations / failed_obligations."""
    prop_files = [LEAN / (m.replace(".", "/") + ".lean") for m in prop_modules]
    for f in prop_files:
        ctx.obligations += theorems_in(f)
    with Lock("lake"):
        r = run(["lake", "build"] + list(prop_modules) + list(extra_targets), cwd=LEAN, timeout=3600)
    ctx.checker_cmd = "cd /verif/lean && lake build " + " ".join(prop_modules) + " && lake env lean <#print axioms for every theorem>"
    if r.returncode != 0:
        out = r.stdout
        failed = set()
        other = []
        for m in re.finditer(r"error: (\S+?\.lean):(\d+):\d+:(.*)", out):
            path, ln = LEAN / m.group(1), int(m.group(2))
            if path in prop_files or True:
                spans = theorem_spans(path) if path.exists() else []
                name = None
                for s, n in spans:
                    if s <= ln:
                        name = n
                rel = m.group(1)
                failed.add(f"{rel}:{name}")
        if not failed:
            failed.add("lake-build")
        ctx.log("lake build FAILED; obligations that no longer check:", sorted(failed))
        ctx.notes.append("lake build output (tail): " + out[-1500:])
        ctx.failed_obligations += sorted(failed)
        # make sure the driver is still available for the search
        with Lock("lake"):
            r2 = run(["lake", "build"] + list(extra_targets), cwd=LEAN, timeout=3600)
        if r2.returncode != 0:
            ctx.log("driver build failed too:\n" + r2.stdout[-2000:])
        return False
    # forbidden tokens in every local source the theorems depend on
    srcs = lean_sources_of(prop_modules)
    hits = forbidden_tokens(srcs.values())
    if hits:
        ctx.failed_obligations += [f"forbidden-token:{h}" for h in hits]
        ctx.log("forbidden tokens:", hits)
    # axiom audit
    audit = ctx.work / "Audit.lean"
    lines = [f"import {m}" for m in prop_modules]
    for t in ctx.obligations:
        lines.append(f"#print axioms {t}")
    audit.write_text("\n".join(lines) + "\n")
    with Lock("lake"):
        r = run(["lake", "env", "lean", str(audit)], cwd=LEAN, timeout=1800)
    cur = None
    text = r.stdout
    for m in re.finditer(r"'([^']+)' (depends on axioms: \[([^\]]*)\]|does not depend on any axioms)", text, re.S):
        name = m.group(1)
        axs = [a.strip() for a in (m.group(3) or "").replace("\n", " ").split(",") if a.strip()]
        ctx.axioms[name] = axs
        bad = [a for a in axs if a not in ALLOWED_AXIOMS]
        if bad:
            ctx.failed_obligations.append(f"axioms:{name}:{','.join(bad)}")
    missing = [t for t in ctx.obligations if t not in ctx.axioms]
    if r.returncode != 0 or missing:
        ctx.failed_obligations += [f"axiom-audit:{t}" for t in missing] or ["axiom-audit"]
        ctx.log("axiom audit problem:", text[-1500:])
    if ctx.tier == "thorough":
        for m in prop_modules:
            with Lock("lake"):
                r = run(["lake", "env", "leanchecker", m], cwd=LEAN, timeout=3600)
            if r.returncode != 0:
                ctx.failed_obligations.append(f"leanchecker:{m}")
                ctx.log("leanchecker failed", m, r.stdout[-1000:])
        ctx.checker_cmd += " && lake env leanchecker " + " ".join(prop_modules)
    return not ctx.failed_obligations


# ---------------------------------------------------------------- harness

def build_harness(ctx, bins):
    with Lock("cargo-harness"):
        lock = HARNESS / "Cargo.lock"
        cmd = ["cargo", "build", "--offline"] + sum((["--bin", b] for b in bins), [])
        r = run(cmd, cwd=HARNESS, timeout=7200)
    if r.returncode != 0:
        ctx.log("harness build failed:\n" + r.stdout[-4000:])
        return False
    return True


def hbin(name):
    return str(HARNESS / "target/debug" / name)


def run_model(ctx, stream, trace_path, out_path):
    with open(trace_path) as fi, open(out_path, "w") as fo:
        r = subprocess.run([str(KMODEL)] + stream.split(), stdin=fi, stdout=fo, stderr=subprocess.PIPE, text=True)
    if r.returncode != 0:
        ctx.log("model driver failed:", r.stderr[-1000:])
    return r.returncode == 0


def parse_cases(trace_path, verdict_path):
    """Pairs trace lines with verdict lines; returns list of cases:
    {id, ops:[(line, verdict)]}"""
    tl = [l.rstrip("\n") for l in open(trace_path) if l.strip() and not l.startswith("#")]
    vl = [l.rstrip("\n") for l in open(verdict_path)]
    cases = []
    if len(tl) != len(vl):
        return None
    for t, v in zip(tl, vl):
        if t.startswith("case "):
            cases.append({"id": t[5:], "ops": []})
        else:
            if not cases:
                cases.append({"id": "anon", "ops": []})
            cases[-1]["ops"].append((t, v))
    return cases


def first_failure(case):
    for i, (t, v) in enumerate(case["ops"]):
        if v.startswith("FAIL") or v.startswith("bad-op"):
            return i, v
    return None


def exec_ops(ctx, harness_bin, stream, case_id, ops, tag, extra_args=()):
    """Runs the implementation on an explicit op list, then the model; returns case dict."""
    opsf = ctx.work / f"{tag}.ops"
    trf = ctx.work / f"{tag}.trace"
    vf = ctx.work / f"{tag}.verdict"
    opsf.write_text(f"case {case_id}\n" + "\n".join(ops) + "\n")
    r = run([hbin(harness_bin), "--ops", str(opsf), "--out", str(trf)] + list(extra_args), timeout=3600)
    if r.returncode != 0:
        return {"id": case_id, "ops": [(o, "") for o in ops], "crash": r.stdout[-2000:]}
    run_model(ctx, stream, trf, vf)
    cs = parse_cases(trf, vf)
    if not cs:
        return {"id": case_id, "ops": [(o, "") for o in ops], "crash": "trace/verdict length mismatch"}
    return cs[0]


def fail_class(v):
    """Coarse class of a failure verdict used to keep shrinking on the same failure."""
    w = v.split()
    if v.startswith("FAIL oracle"):
        return "oracle:" + ",".join(sorted(set(w[2:])))
    if v.startswith("FAIL model"):
        return "model"
    return w[0] if w else "?"


def strip_obs(line):
    return line.split(" => ")[0].rstrip()


def shrink(ctx, harness_bin, stream, case, extra_args=(), budget=150):
    """Delta-debugging over the op list, keeping the same failure class."""
    ff = first_failure(case)
    if ff is None:
        return case
    idx, v = ff
    cls = fail_class(v)
    ops = [strip_obs(t) for t, _ in case["ops"][: idx + 1]]
    n = 0
    def fails(cand):
        nonlocal n
        n += 1
        c = exec_ops(ctx, harness_bin, stream, case["id"], cand, f"shrink{n}", extra_args)
        if c.get("crash"):
            return None
        f = first_failure(c)
        if f is not None and fail_class(f[1]) == cls:
            return c
        return None
    best = None
    chunk = max(1, len(ops) // 2)
    while chunk >= 1 and n < budget:
        i = 0
        changed = False
        while i < len(ops) - 1 and n < budget:   # never drop the last (failing) op
            cand = ops[:i] + ops[i + chunk:]
            if len(cand) == 0 or (i + chunk) > len(ops) - 1 and cand[-1:] != ops[-1:]:
                cand = ops[:i] + ops[-1:]
            c = fails(cand)
            if c is not None:
                ops = [strip_obs(t) for t, _ in c["ops"][: first_failure(c)[0] + 1]]
                best = c
                changed = True
            else:
                i += chunk
        if not changed:
            chunk //= 2
    if best is None:
        best = exec_ops(ctx, harness_bin, stream, case["id"], ops, "shrink-final", extra_args)
        if first_failure(best) is None:
            return case
    return best


def histogram(ctx, cases):
    for c in cases:
        for t, v in c["ops"]:
            ctx.evaluations += 1
            if v.startswith("ok "):
                k = v[3:].strip()
                ctx.hist[k] = ctx.hist.get(k, 0) + 1


# ---------------------------------------------------------------- known findings

def load_known():
    p = VERIF / "known_findings.jsonl"
    out = []
    if p.exists():
        for l in p.read_text().splitlines():
            l = l.strip()
            if l and not l.startswith("#"):
                out.append(json.loads(l))
    return out


def match_known(pid, signature):
    for k in load_known():
        if k.get("property") == pid and k.get("status") == "open" and re.fullmatch(k["signature"], signature):
            return k
    return None


# ---------------------------------------------------------------- reporting

def write_replay(ctx, kind, data):
    d = VERIF / "replays"
    d.mkdir(exist_ok=True)
    n = len(list(d.glob(f"{ctx.pid}-*.json")))
    p = d / f"{ctx.pid}-{ctx.tier}-{ctx.seed}-{n}.json"
    data = dict(data)
    data.update({"property": ctx.pid, "kind": kind, "seed": ctx.seed, "tier": ctx.tier})
    p.write_text(json.dumps(data, indent=1))
    return p


def report_violation(ctx, kind, data, signature=None, found_input=True):
    if signature:
        k = match_known(ctx.pid, signature)
        if k:
            if signature not in ctx.known_reported:
                ctx.known_reported.append(signature)
                printed = ctx.__dict__.setdefault("known_printed", set())
                if k['what'] not in printed:      # one line per listed finding, however many signatures of its class were met
                    printed.add(k['what'])
                    print(f"KNOWN-FINDING: property={ctx.pid} {k['what']}", flush=True)
            return
    p = write_replay(ctx, kind, dict(data, signature=signature))
    suffix = "" if found_input else " no-failing-input-found"
    ctx.violations.append(str(p))
    print(f"VIOLATION property={ctx.pid} replay={p}{suffix}", flush=True)


def finish(ctx, level="proof", rule="", extra_cov=None):
    nontrivial = {k: v for k, v in ctx.hist.items() if not re.search(r"(^|[:/])(bad|trivial|noop|reject-parse)", k)}
    cov = {
        "obligations": len(ctx.obligations),
        "discharged": len(ctx.obligations) - len({f for f in ctx.failed_obligations}) if ctx.failed_obligations else len(ctx.obligations),
        "checker_cmd": getattr(ctx, "checker_cmd", "lake build"),
        "trusted_base": TRUSTED_BASE,
        "theorems": ctx.obligations,
        "axioms": {k: v for k, v in ctx.axioms.items()},
        "failed_obligations": ctx.failed_obligations,
        "evaluations": ctx.evaluations,
        "distinct_nontrivial": len(nontrivial),
        "rule": rule,
        "samples": ctx.samples[:8] or ["(no samples)"],
        "traces_validated_against_impl": ctx.traces_validated,
        "branch_histogram": dict(sorted(ctx.hist.items())),
        "known_findings_reported": ctx.known_reported,
        "notes": ctx.notes,
    }
    cov["discharged"] = max(0, min(cov["discharged"], cov["obligations"]))
    if extra_cov:
        cov.update(extra_cov)
    ev = {
        "property_id": ctx.pid,
        "tier": ctx.tier,
        "seed": ctx.seed,
        "level": level,
        "coverage": cov,
        "assumptions": ctx.assumptions,
        "wall_s": round(time.time() - ctx.t0, 1),
        "violations": len(ctx.violations),
    }
    (VERIF / "evidence").mkdir(exist_ok=True)
    (VERIF / "evidence" / f"{ctx.pid}.json").write_text(json.dumps(ev, indent=1))
    ctx.cleanup()
    if ctx.violations:
        return 1
    print(f"OK property={ctx.pid} tier={ctx.tier} obligations={cov['obligations']} discharged={cov['discharged']} "
          f"evaluations={ctx.evaluations} distinct={cov['distinct_nontrivial']} wall={ev['wall_s']}s", flush=True)
    return 0


def obligations_broken(ctx, found_any_input):
    """Called at the end when proof obligations failed: if no concrete failing input has been
    reported, report the violation with no-failing-input-found."""
    if ctx.failed_obligations and not found_any_input:
        report_violation(ctx, "obligation", {
            "what": "proof obligation / translation no longer checks and the search found no failing input",
            "failed_obligations": ctx.failed_obligations,
            "notes": ctx.notes,
        }, found_input=False)


def generic_stateful_stream(ctx, harness_bin, stream, n, length, rule_sig, extra_args=(), corpus=None,
                            max_reports=1):
    """Runs corpus + generated cases of a stateful stream; shrinks and reports failures.
    rule_sig(case, idx, verdict) -> signature string for known-finding matching.
    Returns True if any failing input was found (known or not)."""
    found = False
    runs = []
    cdir = VERIF / "corpus" / (corpus or harness_bin)
    if cdir.exists():
        for f in sorted(cdir.glob("*.ops")):
            tr = ctx.work / f"corpus-{f.stem}.trace"
            r = run([hbin(harness_bin), "--ops", str(f), "--out", str(tr)] + list(extra_args), timeout=3600)
            if r.returncode != 0:
                ctx.log(f"harness failed on corpus {f}: {r.stdout[-1500:]}")
                report_violation(ctx, "harness-crash", {"stream": stream, "corpus": str(f), "output": r.stdout[-3000:]},
                                 signature=f"crash:{harness_bin}:corpus")
                found = True
                continue
            runs.append(tr)
    tr = ctx.work / f"{harness_bin}.trace"
    r = run([hbin(harness_bin), "--seed", str(ctx.seed), "--n", str(n), "--len", str(length), "--tier", ctx.tier,
             "--out", str(tr)] + list(extra_args), timeout=6 * 3600)
    if r.returncode != 0:
        ctx.log(f"harness {harness_bin} failed: {r.stdout[-3000:]}")
        report_violation(ctx, "harness-crash", {"stream": stream, "output": r.stdout[-3000:]},
                         signature=f"crash:{harness_bin}")
        found = True
    if tr.exists():
        runs.append(tr)
    reported = {}
    for tr in runs:
        vf = Path(str(tr) + ".verdict")
        if not run_model(ctx, stream, tr, vf):
            report_violation(ctx, "model-driver-crash", {"stream": stream}, found_input=False)
            continue
        cases = parse_cases(tr, vf)
        if cases is None:
            report_violation(ctx, "model-driver-desync", {"stream": stream}, found_input=False)
            continue
        histogram(ctx, cases)
        ctx.traces_validated += len(cases)
        if cases and not ctx.samples:
            ctx.samples.append({"stream": stream, "case": cases[0]["id"],
                                "ops": [f"{t}  ## {v}" for t, v in cases[0]["ops"][:12]]})
        for c in cases:
            ff = first_failure(c)
            if ff is None:
                continue
            found = True
            cls = fail_class(ff[1])
            if reported.get(cls, 0) >= max_reports:
                continue
            reported[cls] = reported.get(cls, 0) + 1
            small = shrink(ctx, harness_bin, stream, c, extra_args)
            sf = first_failure(small) or ff
            sig = rule_sig(small, sf[0], sf[1])
            kind = "implementation-vs-oracle" if sf[1].startswith("FAIL oracle") else "model-vs-implementation"
            report_violation(ctx, kind, {
                "stream": stream, "harness": harness_bin, "case": small["id"],
                "ops": [strip_obs(t) for t, _ in small["ops"][: sf[0] + 1]],
                "trace": [f"{t}  ## {v}" for t, v in small["ops"][: sf[0] + 1]],
                "verdict": sf[1],
                "replay_cmd": f"./check {ctx.pid} --replay <this file>",
            }, signature=sig)
    return found


# ---------------------------------------------------------------- parallel generation (slow streams)

def parallel_traces(ctx, harness_bin, n_cases, length, procs=12, extra_args=()):
    """Runs `procs` harness processes with seeds derived from ctx.seed, each generating a share of the
    cases; returns the list of trace files. Used for streams whose cases take seconds (system)."""
    import concurrent.futures
    procs = max(1, min(procs, n_cases))
    share = (n_cases + procs - 1) // procs
    jobs = []
    for i in range(procs):
        tr = ctx.work / f"{harness_bin}-{i}.trace"
        cmd = [hbin(harness_bin), "--seed", str(ctx.seed * 1000 + i), "--n", str(share), "--len", str(length),
               "--tier", ctx.tier, "--out", str(tr)] + list(extra_args)
        jobs.append((cmd, tr))
    out = []
    def one(job):
        cmd, tr = job
        r = run(cmd, timeout=6 * 3600)
        return (r.returncode, r.stdout[-3000:], tr)
    with concurrent.futures.ThreadPoolExecutor(max_workers=procs) as ex:
        for rc, tail, tr in ex.map(one, jobs):
            if rc != 0:
                ctx.log(f"harness {harness_bin} failed (rc={rc}): {tail}")
                report_violation(ctx, "harness-crash", {"harness": harness_bin, "output": tail, "trace": str(tr)},
                                 signature=f"crash:{harness_bin}")
            if tr.exists():
                out.append(tr)
    return out


def judge_traces(ctx, harness_bin, stream, traces, rule_sig, extra_args=(), max_reports=1):
    """Runs the model driver `stream` over existing trace files, shrinks and reports failures.
    Returns True if any failing input was found."""
    found = False
    reported = {}
    for tr in traces:
        vf = Path(str(tr) + "." + stream.replace(" ", "_") + ".verdict")
        if not run_model(ctx, stream, tr, vf):
            report_violation(ctx, "model-driver-crash", {"stream": stream}, found_input=False)
            continue
        cases = parse_cases(tr, vf)
        if cases is None:
            report_violation(ctx, "model-driver-desync", {"stream": stream}, found_input=False)
            continue
        histogram(ctx, cases)
        ctx.traces_validated += len(cases)
        if cases and not ctx.samples:
            ctx.samples.append({"stream": stream, "case": cases[0]["id"],
                                "ops": [f"{strip_obs(t)}  ## {v}" for t, v in cases[0]["ops"][:14]]})
        for c in cases:
            ff = first_failure(c)
            if ff is None:
                continue
            found = True
            cls = fail_class(ff[1])
            if reported.get(cls, 0) >= max_reports:
                continue
            reported[cls] = reported.get(cls, 0) + 1
            small = shrink(ctx, harness_bin, stream, c, extra_args, budget=60)
            sf = first_failure(small) or ff
            sig = rule_sig(small, sf[0], sf[1])
            kind = "implementation-vs-oracle" if sf[1].startswith("FAIL oracle") else "model-vs-implementation"
            report_violation(ctx, kind, {
                "stream": stream, "harness": harness_bin, "case": small["id"],
                "ops": [strip_obs(t) for t, _ in small["ops"][: sf[0] + 1]],
                "verdict": sf[1],
                "replay_cmd": f"./check {ctx.pid} --replay <this file>",
            }, signature=sig)
    return found


def corpus_traces(ctx, harness_bin, corpus=None, extra_args=()):
    out = []
    cdir = VERIF / "corpus" / (corpus or harness_bin)
    if cdir.exists():
        for f in sorted(cdir.glob("*.ops")):
            tr = ctx.work / f"corpus-{f.stem}.trace"
            r = run([hbin(harness_bin), "--ops", str(f), "--out", str(tr)] + list(extra_args), timeout=3600)
            if r.returncode != 0:
                ctx.log(f"harness failed on corpus {f}: {r.stdout[-1500:]}")
                report_violation(ctx, "harness-crash", {"corpus": str(f), "output": r.stdout[-3000:]},
                                 signature=f"crash:{harness_bin}:corpus")
                continue
            out.append(tr)
    return out
